// sim/props/pulse_worker.cpp -- netsim/pulse worker: C20
#include "c20.h"
#include "../netsim/wraps.h"
using namespace vs;
static muscle::CompleteSetupSystem * g_css = NULL;
static void Warmup()
{
   g_css = new muscle::CompleteSetupSystem;
   muscle::SetConsoleLogLevel(muscle::MUSCLE_LOG_NONE);
   // Nothing in PulseNode.cpp is constructed lazily, so no plan is executed here on purpose: a defect that hangs or crashes
   // the scheduler must show up in a seeded run (attributable, replayable), never in the warm-up.
   (void) muscle::GetRunTime64();
   SimClockReset();
}
static void BetweenRuns()
{
   SimClockReset();
   muscle::AbstractObjectRecycler::GlobalFlushAllCachedObjects();
}
static const PropDef kProps[] = {
   {"C20", c20::Gen, c20::Exec, false},
};
int main(int argc, char ** argv)
{
   WorkerDef d = {"netsim/pulse", kProps, (int)(sizeof(kProps)/sizeof(kProps[0])), Warmup, BetweenRuns};
   return WorkerMain(argc, argv, d);
}
