// sim/props/c03.h -- C03: a gateway delivers exactly the sent sequence for every byte segmentation (netsim/wire)
#pragma once
#include "wire_common.h"

namespace vs { namespace c03 {

using namespace muscle;

// ----------------------------------------------------------------------------------------------- plan generation
// cfg gw=<name> enc=<0..9> lru=<bytes> eol=<0..2> minchunk=<n> ts=<µs or 0>
// chunks sw|rr|rw|sr <n> <n> ...       cyclic chunk schedules (sender write, receiver read, receiver write, sender read)
// msg <gseed> <class>                  enqueue one generated Message on the sender
// text <gseed> <nlines>                (text gateway) enqueue a Message of text lines
// raw <gseed> <nchunks>                (raw/slip) enqueue a Message of data chunks
// out <max>  in <max>                  S.DoOutput(max) / R.DoInput(max)  (0 = no limit)
// back                                 R.DoOutput(); S.DoInput()   (duplex protocols)
// setenc <0..9>                        change the sender's outgoing encoding mid-stream
inline Plan Gen(uint64_t seed)
{
   Rng cfg(seed, "config"), wl(seed, "workload"), fl(seed, "faults");
   Plan p;
   static const int gwWeights[NUM_GW] = {30, 16, 10, 8, 8, 10, 6, 6, 5, 5};
   int tot = 0; for (int w : gwWeights) tot += w;
   int pickW = (int) cfg.below((uint32_t) tot), gw = 0; while(pickW >= gwWeights[gw]) {pickW -= gwWeights[gw]; gw++;}
   const int enc = ((gw == GW_BIN)||(gw == GW_TMPL)||(gw == GW_WS)) ? (cfg.oneIn(3) ? 0 : (int) cfg.below(10)) : 0;
   static const uint32_t lrus[] = {0, 100, 200, 1000, 100000, 1024*1024};
   const uint32_t lru = lrus[cfg.below(6)];
   static const uint32_t minchunks[] = {0, 0, 1, 3, 16, 100};
   const uint32_t minchunk = (gw == GW_RAW) ? minchunks[cfg.below(6)] : 0;
   const int eol = (int) cfg.below(3);
   static const uint32_t tss[] = {0, 0, 0, 1, 3, 50};
   const uint32_t ts = tss[cfg.below(6)];
   const int telnet = (int) cfg.below(2);
   // renc: the encoding the RECEIVING side uses for Messages it sends the other way (duplex use of one gateway object: its two directions keep separate codec state)
   const int renc = ((gw == GW_BIN)||(gw == GW_TMPL)) ? (cfg.oneIn(3) ? enc : (int) cfg.below(10)) : 0;
   const bool duplex = (gw == GW_WS)||(((gw == GW_BIN)||(gw == GW_TMPL))&&(cfg.oneIn(2)));
   p.push_back("cfg prop=C03 gw=" + std::string(kGwNames[gw]) + " enc=" + I(enc) + " lru=" + U(lru) + " eol=" + I(eol) + " minchunk=" + U(minchunk) + " ts=" + U(ts) + " telnet=" + I(telnet) + " renc=" + I(renc)
               + ((gw == GW_MICRO2CPP) ? (" ubuf=" + U(cfg.oneIn(2) ? (1u<<20) : (cfg.oneIn(2) ? (600 + cfg.below(1500)) : (3000 + cfg.below(14000))))) : std::string()));   // size of the micro sender's output buffer
   const int faultCls = cfg.oneIn(6) ? 0 : -1;   // one run in six is fault-free (whole-buffer I/O)
   static const char * dirs[] = {"sw", "rr", "rw", "sr"};
   for (const char * d : dirs) p.push_back(std::string("chunks ") + d + " " + SchedToStr(GenChunkSchedule(fl, faultCls)));

   const int numMsgs = 1 + (int) wl.below(wl.oneIn(5) ? 40 : 10);
   const int sizeBias = (int) wl.below(4);   // 0: mostly tiny .. 3: anything incl. large
   int queued = 0, ops = 0;
   while((queued < numMsgs)&&(ops < 600))
   {
      ops++;
      switch(wl.below(8))
      {
         case 0: case 1: case 2:
         {
            const uint64_t gs = wl.u64() & 0xffffffffffffULL;
            if (gw == GW_TEXT) p.push_back("text " + U(gs) + " " + I(1 + wl.below(4)));
            else if ((gw == GW_RAW)||(gw == GW_SLIP)) p.push_back("raw " + U(gs) + " " + I(1 + wl.below(3)));
            else
            {
               int cls;
               if ((gw == GW_CPP2MINI)||(gw == GW_MINI2CPP)||(gw == GW_CPP2MICRO)||(gw == GW_MICRO2CPP)) cls = MSGCLS_COMMON;
               else if (gw == GW_TMPL) cls = wl.pct(60) ? MSGCLS_SHAPED : (int) wl.below(MSGCLS_COMMON);
               else
               {
                  static const int bias[4][8] = {{0,0,0,1,1,5,5,2}, {0,1,1,1,2,4,5,5}, {1,1,2,2,3,4,5,5}, {0,1,2,3,3,4,5,2}};
                  cls = bias[sizeBias][wl.below(8)]; if (wl.oneIn(25)) cls = MSGCLS_MANYFIELDS;
               }
               std::string shp; if ((gw == GW_TMPL)&&(cls == MSGCLS_SHAPED)&&(wl.pct(60))) shp = " " + I((int)((seed >> 7) % 10) + (wl.oneIn(4) ? 1 : 0));
               p.push_back(std::string(((duplex)&&(wl.oneIn((gw == GW_WS) ? 4 : 3))) ? "rmsg " : "msg ") + U(gs) + " " + I(cls) + shp);
            }
            queued++;
         }
         break;
         case 3: case 4: p.push_back("out " + U(wl.oneIn(3) ? (1 + wl.below(wl.oneIn(2) ? 12 : 3000)) : 0)); break;
         case 5: case 6: p.push_back("in "  + U(wl.oneIn(3) ? (1 + wl.below(wl.oneIn(2) ? 12 : 3000)) : 0)); break;
         default:
            if (gw == GW_WS) p.push_back("back");
            else if ((duplex)&&(wl.oneIn(2))) p.push_back(wl.oneIn(5) ? ("rsetenc " + I(wl.below(10))) : std::string("back"));
            else if (((gw == GW_BIN)||(gw == GW_TMPL)||(gw == GW_TEXT)||(gw == GW_SLIP)||((gw == GW_RAW)&&(minchunk == 0)))&&(wl.oneIn((gw == GW_TMPL) ? 4 : 10))) p.push_back(((gw != GW_RAW)&&(wl.oneIn(2))) ? ("resetmid " + U(wl.oneIn(4) ? 0 : (1 + wl.below(wl.oneIn(2) ? 40 : 3000)))) : ("reset " + I(wl.below(3))));   // both ends Reset() at a quiescent point (a reconnect), then carry on (text gateway: the new stream may use another line terminator)
            else if (((gw == GW_BIN)||(gw == GW_TMPL))&&(wl.oneIn(4))) p.push_back("setenc " + I(wl.below(10)));
            else p.push_back("out 0");
         break;
      }
   }
   return p;
}

// ----------------------------------------------------------------------------------------------- execution
struct Harness
{
   int gw; Cfg cfg;
   SimStream a2b, b2a;
   AbstractMessageIOGatewayRef S, R;            // C++ ends (either may be NULL when that end is a C gateway)
   MMessageGateway * miniS, * miniR;
   UMessageGateway microS, microR; bool useMicroS, useMicroR; std::vector<uint8_t> microBufs[4];   // the micro gateway works in caller-supplied buffers
   SimDataIO * sio, * rio;
   QueueGatewayMessageReceiver rq, sq;
   std::vector<std::string> sent, got;          // units
   std::vector<std::string> sentBack, gotBack;  // duplex protocols (WebSocket pair): Messages the receiving side sends the other way
   uint64_t sentBytes;
   RunResult & res; TraceHash th;

   Harness(const Plan & plan, RunResult & r) : cfg(plan), miniS(NULL), miniR(NULL), useMicroS(false), useMicroR(false), sio(NULL), rio(NULL), sentBytes(0), res(r)
   {
      gw = GwFromName(cfg.s("gw", "bin")); if (gw < 0) gw = GW_BIN;
      const int enc = MUSCLE_MESSAGE_ENCODING_DEFAULT + (int) cfg.i("enc", 0);
      const uint32 lru = (uint32) cfg.i("lru", 1024*1024);
      switch(gw)
      {
         case GW_BIN:  S.SetRef(new MessageIOGateway(enc)); R.SetRef(new ExactFrame<MessageIOGateway>((int32)(MUSCLE_MESSAGE_ENCODING_DEFAULT + (int) cfg.i("renc", 0)))); break;
         case GW_TMPL: S.SetRef(new TemplatingMessageIOGateway(lru, enc)); R.SetRef(new ExactFrame<TemplatingMessageIOGateway>(lru, (int32)(MUSCLE_MESSAGE_ENCODING_DEFAULT + (int) cfg.i("renc", 0)))); break;
         case GW_TEXT:
         {
            PlainTextMessageIOGateway * s = new PlainTextMessageIOGateway; static const char * eols[] = {"\r\n", "\n", "\r"};
            s->SetOutgoingEndOfLineString(eols[cfg.i("eol", 0) % 3]); S.SetRef(s);
            if (cfg.i("telnet", 0)) R.SetRef(new TelnetPlainTextMessageIOGateway); else R.SetRef(new PlainTextMessageIOGateway);   // (the telnet variant strips IAC sequences; generated lines contain no 0xFF byte)
         }
         break;
         case GW_RAW:  S.SetRef(new RawDataMessageIOGateway); R.SetRef(new RawDataMessageIOGateway((uint32) cfg.i("minchunk", 0))); break;
         case GW_SLIP: S.SetRef(new SLIPFramedDataMessageIOGateway); R.SetRef(new SLIPFramedDataMessageIOGateway); break;
         case GW_WS:
         {
            WebSocketMessageIOGateway * c = new WebSocketMessageIOGateway("/", "localhost", "muscle", "origin");
            WebSocketMessageIOGateway * s = new WebSocketMessageIOGateway;
            c->SetSlaveGateway(AbstractMessageIOGatewayRef(new MessageIOGateway(enc)));
            s->SetSlaveGateway(AbstractMessageIOGatewayRef(new ExactFrame<MessageIOGateway>()));
            S.SetRef(c); R.SetRef(s);
         }
         break;
         case GW_CPP2MINI: S.SetRef(new MessageIOGateway()); miniR = MGAllocMessageGateway(); break;
         case GW_MINI2CPP: miniS = MGAllocMessageGateway(); R.SetRef(new ExactFrame<MessageIOGateway>()); break;
         case GW_CPP2MICRO: S.SetRef(new MessageIOGateway()); useMicroR = true; break;
         case GW_MICRO2CPP: useMicroS = true; R.SetRef(new ExactFrame<MessageIOGateway>()); break;
         default: Fail("harness", "gateway type not implemented in C03");
      }
      if (useMicroS) {microBufs[0].resize(1024); microBufs[1].resize((size_t) std::max<long long>(300, cfg.i("ubuf", 1<<20))); UGGatewayInitialize(&microS, &microBufs[0][0], (uint32) microBufs[0].size(), &microBufs[1][0], (uint32) microBufs[1].size());}
      if (useMicroR) {microBufs[2].resize(1<<18); microBufs[3].resize(1024); UGGatewayInitialize(&microR, &microBufs[2][0], (uint32) microBufs[2].size(), &microBufs[3][0], (uint32) microBufs[3].size());}
      if (S()) {sio = new SimDataIO(&b2a, &a2b); S()->SetDataIO(DataIORef(sio));}
      if (R()) {rio = new SimDataIO(&a2b, &b2a); R()->SetDataIO(DataIORef(rio));}
      const uint64 ts = (uint64) cfg.i("ts", 0);
      if (ts > 0) {if (S()) S()->SetSuggestedMaximumTimeSlice(ts); if (R()) R()->SetSuggestedMaximumTimeSlice(ts);}
   }
   ~Harness()
   {
      S.Reset(); R.Reset();
      if (miniS) MGFreeMessageGateway(miniS);
      if (miniR) MGFreeMessageGateway(miniR);
   }

   void Units(const MessageRef & m, std::vector<std::string> & out)
   {
      if (gw == GW_TEXT) {const String * s; for (int i=0; m()->FindString(PR_NAME_TEXT_LINE, i, &s).IsOK(); i++) out.push_back(std::string(s->Cstr(), s->Length()));}
      else if ((gw == GW_RAW)||(gw == GW_SLIP))
      {
         const void * d; uint32 nb;
         for (int i=0; m()->FindData(PR_NAME_DATA_CHUNKS, B_ANY_TYPE, i, &d, &nb).IsOK(); i++)
         {
            std::string s((const char *) d, nb);
            if (gw == GW_RAW) {if (out.empty()) out.push_back(""); out[0] += s;}
            else if (nb > 0) out.push_back(s);
         }
      }
      else out.push_back(Flat(m));
   }
   void DrainReceived()
   {
      MessageRef m;
      while(rq.GetMessages().RemoveHead(m).IsOK()) {Units(m, got); res.stats.inc("msgs_delivered");}
   }
   void CheckPrefix(const char * when)
   {
      if (gw == GW_RAW)
      {
         static const std::string empty;
         const std::string & s = sent.empty() ? empty : sent[0]; const std::string & g = got.empty() ? empty : got[0];
         if ((g.size() > s.size())||(s.compare(_rawChecked, g.size()-_rawChecked, g, _rawChecked, g.size()-_rawChecked) != 0)) Fail("raw_not_prefix", std::string(when) + ": received bytes are not a prefix of the sent bytes (sent " + U(s.size()) + " got " + U(g.size()) + ")");
         _rawChecked = g.size();
         return;
      }
      if (got.size() > sent.size()) Fail("extra_unit", std::string(when) + ": " + U(got.size()) + " units received but only " + U(sent.size()) + " sent");
      for (size_t i=_checked; i<got.size(); i++)
         if (got[i] != sent[i]) Fail("unit_differs", std::string(when) + ": unit " + U(i) + " differs (sent " + U(sent[i].size()) + " bytes, got " + U(got[i].size()) + " bytes)");
      _checked = got.size();
   }
   size_t _checked = 0, _rawChecked = 0, _checkedBack = 0;

   void DoOut(uint32 maxBytes)
   {
      if (S())
      {
         const io_status_t r = S()->DoOutput(maxBytes ? maxBytes : MUSCLE_NO_LIMIT);
         if (r.IsError()) Fail("sender_error", std::string("sender DoOutput returned ") + r.GetStatus()());
         th.u((uint64_t) r.GetByteCount());
         if ((maxBytes)&&((uint32) r.GetByteCount() > maxBytes)&&(gw != GW_WS)) res.stats.inc("p.maxbytes_argument_exceeded");   // (counted, not judged: the property is about WHAT arrives for every max-bytes sequence, not about the argument being a hard limit)
      }
      else if (useMicroS) {const int32 r = UGDoOutput(&microS, maxBytes ? maxBytes : MUSCLE_NO_LIMIT, CSend, &a2b); if (r < 0) Fail("sender_error", "UGDoOutput returned error"); th.u((uint64_t) r);}
      else {const int32 r = MGDoOutput(miniS, maxBytes ? maxBytes : MUSCLE_NO_LIMIT, CSend, &a2b); if (r < 0) Fail("sender_error", "MGDoOutput returned error"); th.u((uint64_t) r);}
   }
   void DoIn(uint32 maxBytes)
   {
      if (R())
      {
         const io_status_t r = R()->DoInput(rq, maxBytes ? maxBytes : MUSCLE_NO_LIMIT);
         if (r.IsError()) Fail("receiver_error", std::string("receiver DoInput returned ") + r.GetStatus()());
         th.u((uint64_t) r.GetByteCount());
         DrainReceived();
      }
      else if (useMicroR)
      {
         UMessage um; const int32 r = UGDoInput(&microR, maxBytes ? maxBytes : MUSCLE_NO_LIMIT, CRecv, &a2b, &um);
         if (r < 0) Fail("receiver_error", "UGDoInput returned error");
         th.u((uint64_t) r);
         if (UMIsMessageValid(&um)) {got.push_back(std::string((const char *) UMGetFlattenedBuffer(&um), UMGetFlattenedSize(&um))); res.stats.inc("msgs_delivered");}
      }
      else
      {
         // the C gateway hands back at most one Message per call
         MMessage * mm = NULL;
         const int32 r = MGDoInput(miniR, maxBytes ? maxBytes : MUSCLE_NO_LIMIT, CRecv, &a2b, &mm);
         if (r < 0) Fail("receiver_error", "MGDoInput returned error");
         th.u((uint64_t) r);
         if (mm)
         {
            const uint32 fs = MMGetFlattenedSize(mm); std::string b(fs, '\0'); MMFlattenMessage(mm, &b[0]); MMFreeMessage(mm);
            got.push_back(b); res.stats.inc("msgs_delivered");
         }
      }
   }
   void DoBack()
   {
      if ((R())&&(S()))
      {
         const io_status_t r1 = R()->DoOutput(); if (r1.IsError()) Fail("receiver_error", std::string("receiver DoOutput returned ") + r1.GetStatus()());
         const io_status_t r2 = S()->DoInput(sq);  if (r2.IsError()) Fail("sender_error", std::string("sender DoInput returned ") + r2.GetStatus()());
         th.u((uint64_t) r1.GetByteCount()); th.u((uint64_t) r2.GetByteCount());
         MessageRef bm; while(sq.GetMessages().RemoveHead(bm).IsOK()) {gotBack.push_back(Flat(bm)); res.stats.inc("msgs_delivered_reverse");}
         if (gotBack.size() > sentBack.size()) Fail("spurious_message", "the sending side received " + U(gotBack.size()) + " Messages although the other side sent only " + U(sentBack.size()));
         for (size_t i=_checkedBack; i<gotBack.size(); i++) if (gotBack[i] != sentBack[i]) Fail("reverse_unit_differs", "reverse direction: Message " + U(i) + " differs (sent " + U(sentBack[i].size()) + " bytes, got " + U(gotBack[i].size()) + " bytes)");
         _checkedBack = gotBack.size();
      }
   }
   void Enqueue(const MessageRef & m)
   {
      if (useMicroS)
      {
         // the micro gateway builds its Messages in place in a caller-supplied output buffer of plan-given size: a Message that finds no room (yet) is simply not sent
         const bool small = (microBufs[1].size() < (1u<<20));
         UMessage um = UGGetOutgoingMessage(&microS, m()->what);
         if (UMIsMessageValid(&um) == UFalse) {if (!small) Fail("harness", "UGGetOutgoingMessage found no room in a 1 MiB output buffer"); res.stats.inc("p.micro_output_buffer_full_message_not_sent"); return;}
         std::vector<std::vector<uint8_t> > scratch;
         if (!FillUMessage(&um, *m(), scratch)) {UGOutgoingMessageCancelled(&microS, &um); if (!small) Fail("c_codec_rejects", "the micro codec could not express a Message of the common type repertoire"); res.stats.inc("p.micro_output_buffer_full_message_not_sent"); return;}
         UGOutgoingMessagePrepared(&microS, &um);
         Units(m, sent);
         return;
      }
      Units(m, sent);
      if (S()) {if (S()->AddOutgoingMessage(m).IsError()) Fail("harness", "AddOutgoingMessage failed");}
      else if (useMicroS) {}
      else
      {
         const std::string b = Flat(m);
         MMessage * mm = MMAllocMessage(0);
         if (MMUnflattenMessage(mm, b.data(), (uint32) b.size()) != CB_NO_ERROR) {MMFreeMessage(mm); Fail("c_codec_rejects", "MMUnflattenMessage rejected a Message flattened by the C++ codec");}
         if (MGAddOutgoingMessage(miniS, mm) != CB_NO_ERROR) {MMFreeMessage(mm); Fail("harness", "MGAddOutgoingMessage failed");}
         MMFreeMessage(mm);
      }
      res.stats.inc("msgs_sent");
   }
   bool SenderIdle() const
   {
      if (S()) return (S()->HasBytesToOutput() == false)&&(S()->GetOutgoingMessageQueue().IsEmpty());
      if (useMicroS) return (UGHasBytesToOutput(&microS) == UFalse);
      return (MGHasBytesToOutput(miniS) == false);
   }
   bool AllDelivered() const
   {
      if (gw == GW_RAW)
      {
         const size_t s = sent.empty() ? 0 : sent[0].size(), g = got.empty() ? 0 : got[0].size();
         const uint32 mc = (uint32) cfg.i("minchunk", 0);
         return (mc > 0) ? ((s - g) < mc) : (s == g);   // min-chunk mode withholds a final partial chunk by design
      }
      return (got.size() == sent.size())&&(gotBack.size() == sentBack.size());
   }
};

inline void Exec(const Plan & plan, RunResult & res)
{
   Harness h(plan, res);
   size_t opIdx = 0;
   for (const std::string & line : plan)
   {
      opIdx++;
      if (line.compare(0, 4, "cfg ") == 0) continue;
      std::vector<std::string> t = Split(line); if (t.empty()) continue;
      SetCurOp("C03 op %zu: %.200s", opIdx, line.c_str());
      WatchdogArm(0);
      h.th.s(t[0]);
      if (t[0] == "chunks")
      {
         if (t.size() < 2) continue;
         std::vector<uint32_t> v; for (size_t i=2; i<t.size(); i++) v.push_back((uint32_t) ToU(t[i]));
              if (t[1] == "sw") h.a2b.SetSched(true, v);
         else if (t[1] == "rr") h.a2b.SetSched(false, v);
         else if (t[1] == "rw") h.b2a.SetSched(true, v);
         else if (t[1] == "sr") h.b2a.SetSched(false, v);
      }
      else if ((t[0] == "msg")&&(t.size() >= 3)) h.Enqueue(GenMessage(ToU(t[1]), (int) ToI(t[2]), (t.size() >= 4) ? (int) ToI(t[3]) : -1));
      else if (t[0] == "reset")
      {
         // a reconnect: everything in flight is delivered first (fault-free, bounded), then BOTH ends are Reset() and the run carries on with the same objects
         const bool resettable = (h.gw == GW_BIN)||(h.gw == GW_TMPL)||(h.gw == GW_TEXT)||(h.gw == GW_SLIP)||((h.gw == GW_RAW)&&(h.cfg.i("minchunk", 0) == 0));
         if ((resettable)&&(h.S())&&(h.R()))
         {
            const std::vector<uint32_t> sv[4] = {h.a2b.wsched, h.a2b.rsched, h.b2a.wsched, h.b2a.rsched};
            const std::vector<uint32_t> wholeBuf(1, 0xffffffffu);
            h.a2b.SetSched(true, wholeBuf); h.a2b.SetSched(false, wholeBuf); h.b2a.SetSched(true, wholeBuf); h.b2a.SetSched(false, wholeBuf);
            const int bnd = 64 + 4*(int)(h.sent.size() + h.sentBack.size()) + (int)(((h.gw == GW_RAW)&&(!h.sent.empty())) ? (2*(h.sent[0].size()/8192)) : 0);
            for (int i=0; (i<bnd)&&((h.AllDelivered() == false)||(h.SenderIdle() == false)); i++) {h.DoOut(0); h.DoIn(0); h.DoBack(); h.CheckPrefix("pre-reset drain");}
            if ((h.AllDelivered())&&(h.a2b.q.empty())&&(h.b2a.q.empty()))
            {
               h.S()->Reset(); h.R()->Reset(); res.stats.inc("p.reset_and_reuse");
               // a fresh stream may use a different line terminator than the one before it (within one stream a switch would be ambiguous: CR then LF is one CRLF)
               if ((h.gw == GW_TEXT)&&(t.size() >= 2)) {PlainTextMessageIOGateway * tg = dynamic_cast<PlainTextMessageIOGateway *>(h.S()); static const char * eols[] = {"\r\n", "\n", "\r"}; if (tg) {tg->SetOutgoingEndOfLineString(eols[(h.cfg.i("eol", 0) + ToU(t[1])) % 3]); res.stats.inc("p.reset_with_other_line_terminator");}}
            }
            else res.stats.inc("p.reset_skipped_not_quiescent");
            h.a2b.SetSched(true, sv[0]); h.a2b.SetSched(false, sv[1]); h.b2a.SetSched(true, sv[2]); h.b2a.SetSched(false, sv[3]);
         }
      }
      else if ((t[0] == "resetmid")&&(t.size() >= 2))
      {
         // a connection lost at an arbitrary byte: the sender has written everything it had, the receiver has consumed only the first k bytes of what is in flight (usually
         // stopping inside a Message), the rest is gone.  Both ends are Reset() and carry on over a fresh stream: what had not arrived is lost, everything sent afterwards is owed.
         const bool resettable = (h.gw == GW_BIN)||(h.gw == GW_TMPL)||(h.gw == GW_TEXT)||(h.gw == GW_SLIP);
         if ((resettable)&&(h.S())&&(h.R()))
         {
            const std::vector<uint32_t> sv[4] = {h.a2b.wsched, h.a2b.rsched, h.b2a.wsched, h.b2a.rsched};
            const std::vector<uint32_t> wholeBuf(1, 0xffffffffu);
            h.a2b.SetSched(true, wholeBuf); h.a2b.SetSched(false, wholeBuf);
            for (int i=0; (i<4096)&&(h.SenderIdle() == false); i++) h.DoOut(0);
            if (h.SenderIdle())
            {
               const uint32 k = (uint32) std::min<uint64_t>(ToU(t[1]), 1u<<20);
               if (k > 0) {h.a2b.SetSched(false, std::vector<uint32_t>(1, k)); h.DoIn(k); h.CheckPrefix("before the connection was lost");}
               if (!h.a2b.q.empty()) res.stats.inc("f.connection_lost_mid_stream");
               h.a2b.q.clear(); h.b2a.q.clear();
               h.sent.resize(h.got.size()); h.sentBack.resize(h.gotBack.size());
               h.S()->Reset(); h.R()->Reset(); res.stats.inc("p.reset_and_reuse_after_loss");
            }
            h.a2b.SetSched(true, sv[0]); h.a2b.SetSched(false, sv[1]); h.b2a.SetSched(true, sv[2]); h.b2a.SetSched(false, sv[3]);
         }
      }
      else if ((t[0] == "rsetenc")&&(t.size() >= 2)) {MessageIOGateway * mg = dynamic_cast<MessageIOGateway *>(h.R()); if ((mg)&&(h.gw != GW_WS)) mg->SetOutgoingEncoding(MUSCLE_MESSAGE_ENCODING_DEFAULT + (int32)(ToU(t[1]) % 10));}
      else if ((t[0] == "rmsg")&&(t.size() >= 3)&&((h.gw == GW_WS)||(h.gw == GW_BIN)||(h.gw == GW_TMPL))&&(h.R())) {MessageRef m = GenMessage(ToU(t[1]), (int) ToI(t[2]), (t.size() >= 4) ? (int) ToI(t[3]) : -1); h.sentBack.push_back(Flat(m)); if (h.R()->AddOutgoingMessage(m).IsError()) Fail("harness", "AddOutgoingMessage failed"); h.res.stats.inc("msgs_sent_reverse");}
      else if ((t[0] == "text")&&(t.size() >= 3))
      {
         Rng r(ToU(t[1]), "text"); MessageRef m = GetMessageFromPool(PR_COMMAND_TEXT_STRINGS);
         const int nl = (int) ToI(t[2]);
         for (int i=0; i<nl; i++)
         {
            String l; const uint32 len = r.oneIn(5) ? 0 : (r.oneIn(6) ? (2030 + r.below(40)) : r.below(30));
            const bool sevenBit = (h.cfg.i("telnet", 0) != 0);   // the telnet variant documents that it strips every byte with the high bit set
            for (uint32 k=0; k<len; k++) l += (char)(((!sevenBit)&&(r.oneIn(12))) ? (0x80 + r.below(0x70)) : (' ' + r.below(95)));
            (void) m()->AddString(PR_NAME_TEXT_LINE, l);
         }
         h.Enqueue(m);
      }
      else if ((t[0] == "raw")&&(t.size() >= 3))
      {
         Rng r(ToU(t[1]), "raw"); MessageRef m = GetMessageFromPool(PR_COMMAND_RAW_DATA);
         const int nc = (int) ToI(t[2]);
         for (int i=0; i<nc; i++)
         {
            const uint32 nb = r.oneIn(8) ? (3000 + r.below(30000)) : (r.oneIn(6) ? 0 : (1 + r.below(40)));
            ByteBuffer bb; (void) bb.SetNumBytes(nb, false); uint8 * p = bb.GetBuffer();
            const bool slipRich = r.oneIn(2);
            for (uint32 k=0; k<nb; k++) {static const uint8 sp[] = {0xC0, 0xDB, 0xDC, 0xDD}; p[k] = ((slipRich)&&(r.oneIn(3))) ? sp[r.below(4)] : (uint8) r.u32();}
            (void) m()->AddData(PR_NAME_DATA_CHUNKS, B_RAW_TYPE, p, nb);
         }
         h.Enqueue(m);
      }
      else if ((t[0] == "out")&&(t.size() >= 2)) h.DoOut((uint32) ToU(t[1]));
      else if ((t[0] == "in")&&(t.size() >= 2))  h.DoIn((uint32) ToU(t[1]));
      else if (t[0] == "back") h.DoBack();
      else if ((t[0] == "setenc")&&(t.size() >= 2))
      {
         MessageIOGateway * mg = dynamic_cast<MessageIOGateway *>(h.S());
         if (mg) mg->SetOutgoingEncoding(MUSCLE_MESSAGE_ENCODING_DEFAULT + (int32)(ToU(t[1]) % 10));
      }
      h.CheckPrefix("after op");
   }

   // drain: first under the plan's own chunk schedules, then fault-free with a step bound (bounded liveness)
   SetCurOp("C03 drain (faulty schedules)");
   WatchdogArm(0);
   for (int i=0; (i<3000)&&((h.AllDelivered() == false)||(h.gotBack.size() < h.sentBack.size())); i++) {h.DoOut(0); h.DoIn(0); h.DoBack(); h.CheckPrefix("drain");}
   SetCurOp("C03 drain (fault-free)");
   const std::vector<uint32_t> whole(1, 0xffffffffu);
   h.a2b.SetSched(true, whole); h.a2b.SetSched(false, whole); h.b2a.SetSched(true, whole); h.b2a.SetSched(false, whole);
   // each round moves at least one unit when nothing blocks (with a time slice set a gateway may hand over just one per call);
   // for raw streams a unit is one minimum-size chunk, or up to 8192 bytes (the gateway's scratch buffer) without a minimum
   const size_t rawBytes = ((h.gw == GW_RAW)&&(!h.sent.empty())) ? h.sent[0].size() : 0;
   const size_t rawUnit  = (h.cfg.i("minchunk", 0) > 0) ? (size_t) h.cfg.i("minchunk", 0) : 8192;
   const int bound = 64 + 4*(int)(h.sent.size() + h.sentBack.size()) + (int)(2*(rawBytes/rawUnit));
   int steps = 0;
   while(((h.AllDelivered() == false)||(h.gotBack.size() < h.sentBack.size()))&&(steps < bound)) {h.DoOut(0); h.DoIn(0); h.DoBack(); h.CheckPrefix("drain"); steps++;}
   for (int i=0; i<4; i++) {h.DoOut(0); h.DoIn(0); h.DoBack();}   // nothing further may arrive
   h.CheckPrefix("end");
   if (h.AllDelivered() == false)
   {
      size_t s = (h.gw == GW_RAW) ? (h.sent.empty() ? 0 : h.sent[0].size()) : h.sent.size(), g = (h.gw == GW_RAW) ? (h.got.empty() ? 0 : h.got[0].size()) : h.got.size();
      Fail("lost_units", "after a fault-free drain of " + I(bound) + " rounds only " + U(g) + " of " + U(s) + " units arrived (sender idle=" + I(h.SenderIdle()) + ", in flight=" + U(h.a2b.q.size()) + " bytes)");
   }
   if (h.gotBack.size() != h.sentBack.size()) Fail("lost_units", "reverse direction: " + U(h.gotBack.size()) + " of " + U(h.sentBack.size()) + " Messages arrived");
   if (h.SenderIdle() == false) res.stats.inc("p.sender_not_idle_after_delivery");   // (counted, not judged: a sender that still claims output after everything arrived wastes CPU in a server loop but loses, duplicates or alters nothing)
   WatchdogDisarm();

   // statistics / non-triviality
   Stats & st = res.stats;
   st.inc(std::string("gw.") + kGwNames[h.gw]);
   st.inc("bytes_moved", h.a2b.totalRead);
   st.inc("f.short_write", h.a2b.shortWrites + h.b2a.shortWrites);
   st.inc("f.short_read", h.a2b.shortReads + h.b2a.shortReads);
   st.inc("f.would_block", h.a2b.wouldBlocks + h.b2a.wouldBlocks);
   st.inc("f.one_byte", h.a2b.oneByte + h.b2a.oneByte);
   st.inc("units", h.sent.size());
   if ((h.a2b.shortReads + h.a2b.shortWrites + h.a2b.wouldBlocks) == 0) st.inc("runs_fault_free"); else st.inc("runs_with_faults");
   for (auto & u : h.got) h.th.s(u);
   res.hash = h.th.h;
   res.nontrivial = (h.sent.size() >= 1)&&(h.a2b.totalRead > 0);
}

}} // namespace vs::c03
