// sim/props/c10.h -- C10: reference-counted and pooled objects are released exactly once, never early (thrsim)
#pragma once
#include "util/RefCount.h"
#include "util/ObjectPool.h"
#include "util/Queue.h"
#include "system/Mutex.h"
#include "util/ByteBuffer.h"
#include "regex/PathMatcher.h"
#include "c18.h"

namespace vs { namespace c10 {

using namespace muscle;

struct Counters {int live = 0, ctor = 0, dtor = 0, recycled = 0, obtained = 0, heapAllocated = 0, heapDeleted = 0;};
static Counters g_cnt;

// Instrumented reference-countable object: counts constructions/destructions/recycles, carries a canary and an in-use flag
class Obj : public RefCountable
{
public:
   Obj() : canary(0xC0FFEE), payload(0), inUse(false), fromHeap(false) {g_cnt.ctor++; g_cnt.live++;}
   Obj(const Obj & rhs) : RefCountable(rhs), canary(0xC0FFEE), payload(rhs.payload), inUse(false), fromHeap(false) {g_cnt.ctor++; g_cnt.live++;}
   virtual ~Obj()
   {
      if (canary != 0xC0FFEE) thr::ReportAndExit("double_destroy", "an object was destroyed twice (canary already dead)");
      if (GetRefCount() != 0) thr::ReportAndExit("destroyed_while_referenced", "an object was destroyed while its reference count was " + U(GetRefCount()));
      if (fromHeap) {if (!inUse) thr::ReportAndExit("heap_object_deleted_twice", "a heap object was deleted after it had already been released"); g_cnt.heapDeleted++;}
      canary = 0xDEAD; g_cnt.dtor++; g_cnt.live--;
   }
   // the pool's recycle path: "*obj = GetDefaultObject()" on release
   Obj & operator=(const Obj & rhs)
   {
      if (this == &rhs) return *this;
      if (canary != 0xC0FFEE) thr::ReportAndExit("recycled_after_destroy", "a destroyed object was recycled");
      if (GetRefCount() != 0) thr::ReportAndExit("recycled_while_referenced", "an object was returned to its pool while its reference count was " + U(GetRefCount()));
      if (!inUse) thr::ReportAndExit("released_twice", "an object was returned to its pool twice");
      payload = rhs.payload; inUse = false; g_cnt.recycled++;
      holdsRefs = isHeld = false;
      inner = rhs.inner; kids = rhs.kids;   // (the default object holds nothing: this is where a recycled object lets go of what it held)
      return *this;
   }
   uint32 canary; int payload; bool inUse; bool fromHeap;
   // an object may itself hold references (the way a Message holds field data, or a PathMatcherEntry its StringMatcherQueue): one direct one and a small Queue of them.
   // Releasing it (heap: destructor; pool: "*obj = default object") drops them, which may release objects of ANOTHER pool from inside the first release.
   RefCountableRef inner; Queue<RefCountableRef> kids;
   bool holdsRefs = false, isHeld = false;   // harness rule against reference cycles: an object that holds references is never itself held by another object, and vice versa
};
DECLARE_REFTYPES(Obj);

// Thread programs:  O<k> obtain a pooled object into shared slot k | H<k> heap-allocate into slot k | C<k> copy slot k to the local ref | T<k> take slot k (its last reference may die outside the lock)
//                   M<k> promote a non-counting alias of the local object to a counting reference | F<n> pool.Prefill(allocated+n) | W<k> swap local and slot k | X drop the local ref | U use the local ref (copies, const-casts, canary check, yields) | D pool.Drain() | P pool.PerformSanityCheck() | Y yield
inline Plan Gen(uint64_t seed)
{
   Rng cfg(seed, "config"), wl(seed, "workload");
   Plan p;
   const int threads = cfg.oneIn(6) ? 1 : (2 + (int) cfg.below(3));    // also single-threaded histories
   p.push_back("cfg prop=C10 threads=" + I(threads) + " slab=" + I(cfg.below(2)) + " cache=" + I(cfg.below(9)) + " slots=" + I(2 + cfg.below(3)) + thrc::SchedCfgStr(cfg));
   for (int t=0; t<threads; t++)
   {
      std::string s = "prog " + I(t); const int n = 3 + (int) wl.below(10);
      for (int i=0; i<n; i++)
      {
         const int k = (int) wl.below(4);
         switch(wl.below(15))
         {
            case 0: case 1: case 2: s += " O" + I(k); break;
            case 3: s += " H" + I(k); break;
            case 4: case 5: s += " C" + I(k); break;
            case 6: case 7: s += " T" + I(k); break;
            case 8: s += " W" + I(k); break;
            case 9: s += wl.oneIn(2) ? " X" : (wl.oneIn(4) ? (wl.oneIn(2) ? " G" : " R") : " U"); break;
            case 10: s += wl.oneIn(3) ? " D" : " P"; break;
            case 13: s += " Z" + I(k); break;   // obtain an object from one pool and one from the other, let the first hold the second, drop the first: its release nests a release into the other pool
            case 12: {const uint32_t q = wl.below(3); s += (q == 0) ? (" L" + I(k)) : ((q == 1) ? (" Q" + I(k)) : (" B" + I(k)));} break;   // L/Q: the local object takes a reference to slot k's object (directly / into its Queue); B: obtain from the SECOND pool into slot k
            case 11: {const uint32_t q = wl.below(7); s += (q == 0) ? (" S" + I(k)) : ((q == 1) ? std::string(" A") : ((q == 2) ? std::string(" K") : ((q == 3) ? (" M" + I(k)) : ((q == 4) ? (" F" + I(1 + k*3)) : ((q == 5) ? (" M" + I(k)) : std::string(" Y"))))));} break;
            default: s += " Y"; break;
         }
      }
      p.push_back(s);
   }
   return p;
}

// The pool's private count of spare objects (_curPoolSize, "tracks the current number of available objects") is part of the bookkeeping the property names; it is
// read without touching /repo through the one standard loophole: access checks do not apply to the arguments of an explicit template instantiation.
class FailingStrategy : public IMemoryAllocationStrategy
{
public:
   virtual void * Malloc(size_t) {return NULL;}
   virtual void * Realloc(void *, size_t, size_t, bool) {return NULL;}
   virtual void Free(void *, size_t) {}
};
static FailingStrategy g_failingStrategy; static bool g_usedPathMatcher = false;
template<class Tag, typename Tag::type M> struct PrivAccess {friend typename Tag::type PrivGet(Tag) {return M;}};
struct CurPoolSizeTag160 {typedef uint32 ObjectPool<Obj, 160>::*type; friend type PrivGet(CurPoolSizeTag160);};
struct CurPoolSizeTag320 {typedef uint32 ObjectPool<Obj, 320>::*type; friend type PrivGet(CurPoolSizeTag320);};
template struct PrivAccess<CurPoolSizeTag160, &ObjectPool<Obj, 160>::_curPoolSize>;
template struct PrivAccess<CurPoolSizeTag320, &ObjectPool<Obj, 320>::_curPoolSize>;
inline uint32 SpareCountOf(const ObjectPool<Obj, 160> & p) {return p.*PrivGet(CurPoolSizeTag160());}
inline uint32 SpareCountOf(const ObjectPool<Obj, 320> & p) {return p.*PrivGet(CurPoolSizeTag320());}

template<int SLAB> struct Runner
{
   static void Run(const Cfg & cfg, const std::map<int, std::vector<std::string> > & progs, RunResult & res)
   {
      g_cnt = Counters();
      {
         ObjectPool<Obj, SLAB> pool((uint32) cfg.i("cache", 4));    // tiny slabs, tiny cache: slabs are created, emptied, cached and deleted during the run
         ObjectPool<Obj, SLAB> pool2((uint32) cfg.i("cache", 4));   // a second pool of the same kind: objects of one pool may hold references to objects of the other
         const int NS = (int) std::min<long long>(4, std::max<long long>(1, cfg.i("slots", 3)));
         ObjRef slots[4]; Mutex slotLock;   // the slots themselves are guarded by a lock (a Ref is not a thread-safe object; the reference count is)
         volatile int done = 0; const int nt = (int) progs.size();
         for (auto & kv : progs)
         {
            const std::vector<std::string> ops = kv.second;
            thr::Spawn([&, ops]() {
               ObjRef local;
               for (const std::string & op : ops)
               {
                  const int k = (op.size() > 1) ? (int)(ToU(op.substr(1)) % (uint64_t) NS) : 0;
                  switch(op[0])
                  {
                     case 'O':
                     {
                        Obj * o = pool.ObtainObject(); if (o == NULL) break;
                        if (o->canary != 0xC0FFEE) thr::ReportAndExit("pool_returned_dead_object", "ObtainObject() returned a destroyed object");
                        if (o->inUse) thr::ReportAndExit("pool_object_handed_out_twice", "ObtainObject() returned an object that another owner still holds");
                        if (o->payload != 0) thr::ReportAndExit("pool_object_not_fresh", "an object obtained from the pool still carries payload " + I(o->payload) + " from a previous life");
                        if (o->GetRefCount() != 0) thr::ReportAndExit("pool_object_not_fresh", "an object obtained from the pool has reference count " + U(o->GetRefCount()));
                        if ((o->inner())||(o->kids.HasItems())) thr::ReportAndExit("pool_object_not_fresh", "an object obtained from the pool still holds references from a previous life");
                        o->inUse = true; o->payload = 1 + k; g_cnt.obtained++;
                        ObjRef nr(o); DECLARE_MUTEXGUARD(slotLock); slots[k] = nr;
                     }
                     break;
                     case 'B':
                     {
                        Obj * o = pool2.ObtainObject(); if (o == NULL) break;
                        if ((o->canary != 0xC0FFEE)||(o->inUse)||(o->payload != 0)||(o->GetRefCount() != 0)||(o->inner())||(o->kids.HasItems())) thr::ReportAndExit("pool_object_not_fresh", "an object obtained from the second pool is not in the state of a freshly constructed one (in use / payload / reference count / still holding references)");
                        o->inUse = true; o->payload = 20 + k; g_cnt.obtained++;
                        ObjRef nr(o); DECLARE_MUTEXGUARD(slotLock); slots[k] = nr;
                     }
                     break;
                     case 'Z':
                     {
                        Obj * x = (k & 1) ? pool.ObtainObject() : pool2.ObtainObject(); Obj * y = (k & 1) ? pool2.ObtainObject() : pool.ObtainObject();
                        if ((x == NULL)||(y == NULL)) {if (x) {x->inUse = true; g_cnt.obtained++; ObjRef r(x);} if (y) {y->inUse = true; g_cnt.obtained++; ObjRef r(y);} break;}
                        x->inUse = y->inUse = true; x->payload = 40; y->payload = 41; g_cnt.obtained += 2;
                        {ObjRef rx(x), ry(y); x->inner = ry; x->holdsRefs = true; y->isHeld = true; thr::Yield();}   // rx is the last reference to x: releasing x lets go of y from inside the release
                        res.stats.inc("p.nested_cross_pool_release");
                     }
                     break;
                     case 'L': case 'Q':
                     {
                        // the local object takes a reference to slot k's object (never forming a cycle); when the local object is released later, possibly by another thread and
                        // possibly from inside the release of something else, it must let go of it
                        DECLARE_MUTEXGUARD(slotLock);
                        Obj * me = local(); Obj * tgt = slots[k]();
                        if ((me == NULL)||(tgt == NULL)||(me == tgt)||(me->isHeld)||(tgt->holdsRefs)) break;
                        if (op[0] == 'L') {if (me->inner()) break; me->inner = slots[k];} else {if (me->kids.GetNumItems() >= 3) break; (void) me->kids.AddTail(RefCountableRef(slots[k]));}
                        me->holdsRefs = true; tgt->isHeld = true; res.stats.inc((op[0] == 'L') ? "p.object_holds_reference" : "p.object_holds_queued_reference");
                     }
                     break;
                     case 'H': {Obj * o = new Obj; o->fromHeap = true; o->inUse = true; o->payload = 7; g_cnt.heapAllocated++; ObjRef nr(o); DECLARE_MUTEXGUARD(slotLock); slots[k] = nr;} break;
                     case 'C': {DECLARE_MUTEXGUARD(slotLock); local = slots[k];} break;
                     case 'T': {ObjRef tmp; {DECLARE_MUTEXGUARD(slotLock); tmp = slots[k]; slots[k].Reset();} /* the last reference may die here, outside the lock */} break;
                     case 'W': {DECLARE_MUTEXGUARD(slotLock); local.SwapContents(slots[k]);} break;
                     case 'X': local.Reset(); break;
                     case 'U':
                     {
                        ObjRef c1 = local; ConstObjRef cc = c1; ObjRef c2 = CastAwayConstFromRef(cc);
                        if ((c2())&&(c2()->canary != 0xC0FFEE)) thr::ReportAndExit("use_after_release", "a referenced object is already destroyed");
                        if ((c2())&&(!c2()->inUse)) thr::ReportAndExit("use_after_release", "a referenced object has already been returned to its pool");
                        thr::Yield();
                        if ((c2())&&((c2()->canary != 0xC0FFEE)||(!c2()->inUse))) thr::ReportAndExit("use_after_release", "a referenced object was released while a reference to it existed");
                     }
                     break;
                     case 'S': {DECLARE_MUTEXGUARD(slotLock); ObjRef & r = slots[k]; const ObjRef & alias = r; r = alias; if ((r())&&((r()->canary != 0xC0FFEE)||(!r()->inUse))) thr::ReportAndExit("released_by_self_assignment", "assigning a Ref to itself released the object it holds");} break;   // self-assignment of a (possibly sole) reference
                     case 'G':
                     {
                        // library pool, failure path: a holder gives a pooled ByteBuffer an allocation strategy of its own whose Malloc() fails, and drops it;
                        // whoever obtains that object next must find it as a freshly constructed one (no strategy, the requested size)
                        {ByteBufferRef b = GetByteBufferFromPool(0); if (b()) {b()->SetMemoryAllocationStrategy(&g_failingStrategy); (void) b()->SetNumBytes(64, false);}}
                        ByteBufferRef c = GetByteBufferFromPool(16);
                        if (c() == NULL) thr::ReportAndExit("pooled_object_not_fresh", "GetByteBufferFromPool(16) failed although memory is plentiful (the object handed out still uses a previous holder's failing allocation strategy?)");
                        if ((c()->GetMemoryAllocationStrategy() != NULL)||(c()->GetNumBytes() != 16)) thr::ReportAndExit("pooled_object_not_fresh", "a ByteBuffer obtained from the pool has " + std::string(c()->GetMemoryAllocationStrategy() ? "a previous holder's allocation strategy" : "no allocation strategy") + " and " + U(c()->GetNumBytes()) + " bytes (a fresh one: none, 16)");
                        res.stats.inc("p.bytebuffer_with_failing_strategy_recycled");
                     }
                     break;
                     case 'R':
                     {
                        // library pools, failure path: a path whose second clause is not a valid pattern -- PutPathString() backs out half-way and must hand back the pooled
                        // objects it had obtained by then (checked at the end of the run: the library's pools hold no slot in use)
                        {PathMatcher pm; if (pm.PutPathString("x*/[b/q?", ConstQueryFilterRef()).IsOK()) res.stats.inc("p.malformed_path_accepted"); else res.stats.inc("p.malformed_path_refused");}
                        g_usedPathMatcher = true;
                     }
                     break;
                     case 'A': {Obj * raw = local(); local.SetRef(raw); if ((local())&&((local()->canary != 0xC0FFEE)||(!local()->inUse))) thr::ReportAndExit("released_by_self_assignment", "SetRef() with the pointer the Ref already holds released the object");} break;
                     case 'K':
                     {
                        // a non-owning (dummy) reference to an object nobody counts: const-casting it must not start counting, let alone release the object
                        Obj onStack; onStack.inUse = true; onStack.payload = 3;
                        {DummyConstObjRef d(onStack); ObjRef c = CastAwayConstFromRef(d); if (c() != &onStack) thr::ReportAndExit("const_cast_changed_target", "CastAwayConstFromRef returned a different object"); thr::Yield();}
                        if ((onStack.canary != 0xC0FFEE)||(!onStack.inUse)||(onStack.GetRefCount() != 0)) thr::ReportAndExit("non_owning_ref_released_object", "a const-cast of a non-owning reference released (or started counting) an object it never owned");
                        onStack.inUse = false;   // (so that its destructor's bookkeeping stays quiet)
                     }
                     break;
                     case 'M':
                     {
                        // a non-counting alias of an object that is alive (SetRef(p, false), or a copy of a Dummy ref) is PROMOTED to a counting reference to the same
                        // pointer (SetRef(p, true), or assignment from a counting Ref): from then on it must keep the object alive on its own
                        Obj * raw = local(); if (raw == NULL) break;
                        ObjRef alias;
                        if (k & 1) {alias.SetRef(raw, false); thr::Yield(); alias.SetRef(raw, true);}
                              else {DummyObjRef d(*raw); alias = d; thr::Yield(); alias = local;}
                        if (alias() != raw) thr::ReportAndExit("promotion_changed_target", "promoting a non-counting alias changed the object it refers to");
                        local.Reset();   // the alias is now this thread's only reference
                        thr::Yield();
                        if ((raw->canary != 0xC0FFEE)||(!raw->inUse)) thr::ReportAndExit("promoted_alias_not_counted", "an object was released although a reference that had been promoted from non-counting to counting still held it");
                        res.stats.inc("p.alias_promoted");
                        local = alias;
                     }
                     break;
                     case 'F': {const uint32 want = pool.GetNumAllocatedItemSlots() + (uint32) k; (void) pool.Prefill(want); res.stats.inc("p.prefill");} break;   // borrows spare objects from the pool and hands every one of them back
                     case 'D': pool.Drain(); res.stats.inc("p.drain"); break;
                     case 'P': pool.PerformSanityCheck(); break;
                     default:  thr::Yield(); break;
                  }
               }
               local.Reset();
               {DECLARE_MUTEXGUARD(slotLock); done++;} });
         }
         thr::WaitUntil([&]() {return done >= nt;});
         for (int k=0; k<4; k++) slots[k].Reset();
         pool.PerformSanityCheck(); pool2.PerformSanityCheck();
         // every obtained object has been returned exactly once; every heap object deleted exactly once
         if (g_cnt.recycled != g_cnt.obtained) thr::ReportAndExit((g_cnt.recycled < g_cnt.obtained) ? "pooled_object_leaked" : "pooled_object_released_twice", U((uint64_t) g_cnt.obtained) + " objects obtained from the pool, " + U((uint64_t) g_cnt.recycled) + " returned to it, after every reference was dropped");
         if (g_cnt.heapDeleted != g_cnt.heapAllocated) thr::ReportAndExit("heap_object_leaked", U((uint64_t) g_cnt.heapAllocated) + " heap objects allocated, " + U((uint64_t) g_cnt.heapDeleted) + " deleted, after every reference was dropped");
         if (g_usedPathMatcher)
         {
            GetStringMatcherQueuePool()->Drain(); GetStringMatcherPool()->Drain();
            const uint32 q = GetStringMatcherQueuePool()->GetNumAllocatedItemSlots(), m = GetStringMatcherPool()->GetNumAllocatedItemSlots();
            if ((q != 0)||(m != 0)) thr::ReportAndExit("pooled_object_leaked", "every PathMatcher is gone and the library's pools were drained, yet " + U(q) + " StringMatcherQueue and " + U(m) + " StringMatcher slots remain allocated: objects obtained by a PutPathString() that failed half-way were never handed back");
         }
         // pool bookkeeping: with nothing handed out, every allocated slot is a spare one, and the pool's own count of spare objects must say so
         if (SpareCountOf(pool)  != pool.GetNumAllocatedItemSlots())  thr::ReportAndExit("pool_spare_count_inconsistent", "every reference was dropped: the pool has " + U(pool.GetNumAllocatedItemSlots()) + " item slots allocated, none handed out, but counts " + U(SpareCountOf(pool)) + " spare objects");
         if (SpareCountOf(pool2) != pool2.GetNumAllocatedItemSlots()) thr::ReportAndExit("pool_spare_count_inconsistent", "every reference was dropped: the second pool has " + U(pool2.GetNumAllocatedItemSlots()) + " item slots allocated, none handed out, but counts " + U(SpareCountOf(pool2)) + " spare objects");
         // ... a drain gives every slab back; a slot that is still marked in use has no owner
         pool.Drain(); pool2.Drain();
         if ((SpareCountOf(pool) != 0)||(SpareCountOf(pool2) != 0)) thr::ReportAndExit("pool_spare_count_inconsistent", "after a drain with nothing handed out the pools count " + U(SpareCountOf(pool)) + " and " + U(SpareCountOf(pool2)) + " spare objects");
         if (pool2.GetNumAllocatedItemSlots() != 0) thr::ReportAndExit("pool_slot_leaked", "every reference was dropped and the second pool drained, yet " + U(pool2.GetNumAllocatedItemSlots()) + " item slots remain allocated");
         if (pool.GetNumAllocatedItemSlots() != 0) thr::ReportAndExit("pool_slot_leaked", "every reference was dropped and the pool drained, yet " + U(pool.GetNumAllocatedItemSlots()) + " item slots remain allocated: some slab is still marked in use although nobody holds an object of it");
         res.stats.inc("objects_obtained", (uint64_t) g_cnt.obtained); res.stats.inc("heap_objects", (uint64_t) g_cnt.heapAllocated); res.stats.inc("objects_constructed", (uint64_t) g_cnt.ctor);
         if (g_cnt.dtor > 0) res.stats.inc("p.slab_deleted_during_run");
      }  // ~ObjectPool destroys every slab
      if (g_cnt.live != 0) thr::ReportAndExit("object_leaked_or_destroyed_twice", "after the pool was destroyed " + I(g_cnt.live) + " objects remain live (constructed " + I(g_cnt.ctor) + ", destroyed " + I(g_cnt.dtor) + ")");
   }
};

inline void WarmupStatics()
{
   (void) GetDefaultObjectForType<Obj>();   // the pool's reset-to-default template object lives for the whole process
   {ObjectPool<Obj, 160> p1(1); Obj * o = p1.ObtainObject(); if (o) {o->inUse = true; p1.ReleaseObject(o);}}
   {ObjectPool<Obj, 320> p2(1); Obj * o = p2.ObtainObject(); if (o) {o->inUse = true; p2.ReleaseObject(o);}}
   g_cnt = Counters();
}

inline void Exec(const Plan & plan, RunResult & res)
{
   Cfg cfg(plan);
   std::map<int, std::vector<std::string> > progs = thrc::Programs(plan);
   if (progs.empty()) {res.hash = 1; return;}
   SetCurOp("C10 run"); WatchdogArm(0);
   thr::Begin(thrc::SchedCfgFrom(cfg));
   if (cfg.i("slab", 0) == 0) Runner<160>::Run(cfg, progs, res); else Runner<320>::Run(cfg, progs, res);
   thrc::FillSchedStats(res);
   thr::End();
   WatchdogDisarm();
   if (progs.size() == 1) res.stats.inc("runs_single_threaded"); else res.stats.inc("runs_multi_threaded");
   auto get = [&](const char * k) {auto it = res.stats.c.find(k); return (it == res.stats.c.end()) ? (uint64_t) 0 : it->second;};
   res.nontrivial = (get("objects_obtained") + get("heap_objects") >= 1);
}

}} // namespace vs::c10
