// sim/props/c12.h -- C12: the packet tunnel never delivers a Message that was not sent (netsim/dgram)
//
// 1-3 sending PacketTunnelIOGateways (or MiniPacketTunnelIOGateways) with distinct simulated source addresses and one
// receiving gateway talk through a simulated datagram network that is owned by the plan: every packet a sender writes
// goes into an ordered "in flight" list; plan ops deliver, drop or duplicate individual in-flight packets (delivering a
// packet while an older one of the same source is still in flight is a reordering), make a sender's next writes return
// 0 (would-block), or destroy and re-create a sending gateway at the same source address (sender_restart).
//
// Oracle.  Every delivered Message must be byte-identical (Flat()) to a Message sent by the very source the gateway names
// (`not_sent`; `not_sent_after_restart` when that source had a sender_restart before -- finding F10; `wrong_source`); a Message
// may arrive more often than it was sent only after a packet of its source was delivered twice (`dup_without_dup_fault`); a
// source that tags its packets with the receiver's own source-exclusion id must not be heard (`excluded_source_delivered`); no
// packet may exceed the MTU (`mtu_exceeded`).  After the drain, when no packet was dropped, duplicated or reordered and no
// sender restarted, every sender's delivered sequence must equal its sent sequence, exactly once and in order, except for
// Messages the gateway's limits exclude (`perfect_mismatch` when no would-block fired either, else `wouldblock_mismatch`).
// Violation classes the unchanged library produces, kept apart by name so that they cannot mask anything else:
//   not_sent_after_restart          F10: no epoch in the fragment header
//   big_msg_lost_with_slave         with a slave gateway the receiver truncates every reassembled buffer to the default packet size (1168)
//   stuck_after_would_block         a packet held back after a would-block is not reported by HasBytesToOutput()
//   wouldblock_mismatch_mini_zlib   mini tunnel: a held-back packet's header stays patched to "not compressed" although the retry is compressed
#pragma once
#include <string>
#include <vector>
#include <deque>
#include <map>
#include <set>
#include "system/SetupSystem.h"
#include "iogateway/PacketTunnelIOGateway.h"
#include "iogateway/MiniPacketTunnelIOGateway.h"
#include "iogateway/MessageIOGateway.h"
#include "dataio/PacketDataIO.h"
#include "syslog/SysLog.h"
#include "../core/core.h"
#include "../netsim/msggen.h"   // Flat()
#include "../netsim/wraps.h"
#include "../netsim/simio.h"
#include "dataio/PacketizedProxyDataIO.h"

namespace vs { namespace c12 {

using namespace muscle;

// ----------------------------------------------------------------------------------------------- shared by Gen and Exec
// A generated Message is (what = low 32 bits of gseed)[, "from" = sender][, "p" = raw payload].  Its flattened size is
// chosen by the plan: 12 (no fields), 33 ("from" only) or any size >= 56 (payload of size-55 bytes; a payload cannot be empty).
static const uint32_t kFlatEmpty = 12, kFlatFromOnly = 33, kFlatOverhead = 55, kFlatBase = 56;
static const uint32_t kTunnelChunkHdr = 24, kMiniPktHdr = 12, kMiniChunkHdr = 4, kSlaveHdr = 8;
static const int kMaxSenders = 3;
inline uint32_t RoundFlat(uint32_t sz) {return (sz < kFlatFromOnly) ? kFlatEmpty : ((sz < kFlatBase) ? kFlatFromOnly : sz);}
inline uint32_t EffMtu(bool mini, uint32_t mtu) {const uint32_t mn = mini ? (kMiniPktHdr+kMiniChunkHdr+1) : (kTunnelChunkHdr+1); return (mtu < mn) ? mn : mtu;}

// ----------------------------------------------------------------------------------------------- plan generation
// cfg prop=C12 mini=<0|1> mtu=<n> zl=<0..9> senders=<1..3> slave=<0|1> tag=<0|1> addr=<0..2> rxsex=<id> sex0= sex1= sex2= ts=<0|1>
// msg <sender> <gseed> <flatsize>    build a Message (content is a function of sender, gseed, size) and enqueue it on the sender
// out <sender> <maxBytes>            sender DoOutput(maxBytes; 0 = no limit)
// wblock <sender> <n>                the next n WriteTo calls of that sender return 0 (would-block)
// deliver <i> | drop <i> | dup <i>   act on in-flight packet i (mod #in-flight); dup inserts a copy right behind the original
// in [<maxBytes>]                    receiver DoInput (repeated until it reads nothing more)
// restart <sender>                   destroy the sending gateway, create a fresh one at the same source address
// chk <n>                            informational: the generator's model expected n packets in flight here (statistics only)
// (implicit at the end)              drain: flush the senders, deliver everything still in flight in order, receive

// The generator keeps a model of the senders' packetisation so that it knows how many packets are in flight when it
// chooses a fault pattern.  The model is exact for the tunnel and the mini tunnel with or without a (non-compressing) slave.
struct GSender {std::deque<uint32_t> bufs; uint32_t off, pkt, wb, done; GSender() : off(0), pkt(0), wb(0), done(0) {}};
struct GModel
{
   bool mini, ts; uint32_t mtu, slaveHdr;
   std::vector<GSender> s;
   std::vector<int> fl;       // source of every packet in flight, oldest first
   uint32_t packets;          // packets emitted so far
   GModel() : mini(false), ts(false), mtu(25), slaveHdr(0), packets(0) {}
   uint32_t Cap() const {return mini ? (mtu-(kMiniPktHdr+kMiniChunkHdr)) : (mtu-kTunnelChunkHdr);}   // payload bytes of a packet that carries one chunk
   uint32_t NumPackets(uint32_t flat) const {const uint32_t b = flat+slaveHdr; if (mini) return (b <= Cap()) ? 1 : 0; return (b+Cap()-1)/Cap();}
   void Enqueue(int snd, uint32_t flat) {s[snd].bufs.push_back(flat+slaveHdr);}
   bool Idle(int snd) const {return (s[snd].bufs.empty())&&(s[snd].pkt == 0);}
   uint32_t Out(int snd, uint32_t maxBytes)
   {
      GSender & g = s[snd];
      const uint64_t lim = maxBytes ? maxBytes : 0xffffffffULL; uint64_t written = 0; uint32_t emitted = 0; bool first = true;
      while((written < lim)&&((first)||(!ts)))
      {
         first = false;
         if (mini)
         {
            while(!g.bufs.empty())
            {
               const uint32_t S = g.bufs.front();
               if ((kMiniPktHdr+kMiniChunkHdr+S) > mtu) {g.bufs.pop_front(); continue;}   // dropped by the sender
               const uint32_t need = ((g.pkt == 0) ? kMiniPktHdr : 0)+kMiniChunkHdr+S;
               if ((g.pkt+need) <= mtu) {g.pkt += need; g.bufs.pop_front(); g.done++;} else break;
            }
         }
         else
         {
            while(((g.pkt+kTunnelChunkHdr) < mtu)&&(!g.bufs.empty()))
            {
               const uint32_t S = g.bufs.front();
               const uint32_t d = std::min(mtu-(g.pkt+kTunnelChunkHdr), S-g.off);
               g.pkt += kTunnelChunkHdr+d; g.off += d;
               if (g.off == S) {g.bufs.pop_front(); g.off = 0; g.done++;}
            }
         }
         if (g.pkt == 0) break;
         if (g.wb > 0) {g.wb--; break;}
         written += g.pkt; g.pkt = 0; emitted++; packets++; fl.push_back(snd);
      }
      return emitted;
   }
   void Restart(int snd) {s[snd] = GSender();}
};

struct GFaults {bool any, drop, dup, reorder, wblock, restart; int pdrop, pdup, preorder;};

// For <= 6 packets in flight the fault pattern is an index into the finite set (fates)^n x (delivery orders of what is left)
inline void GenPatternIndexed(Plan & p, GModel & g, Rng & fl, const GFaults & f)
{
   const int n = (int) g.fl.size();
   int avail[3]; int nf = 0; avail[nf++] = 0; if (f.drop) avail[nf++] = 1; if (f.dup) avail[nf++] = 2;
   uint64_t idx = fl.u64();
   std::vector<int> fate((size_t) n);
   for (int i=0; i<n; i++) {fate[(size_t) i] = avail[idx % (uint64_t) nf]; idx /= (uint64_t) nf;}
   for (int i=n-1; i>=0; i--)   // back to front, so that the positions of the packets not yet handled stay valid
   {
      if (fate[(size_t) i] == 1) {p.push_back("drop " + I(i)); g.fl.erase(g.fl.begin()+i);}
      else if (fate[(size_t) i] == 2) {p.push_back("dup " + I(i)); g.fl.insert(g.fl.begin()+i+1, g.fl[(size_t) i]);}
   }
   for (size_t m=g.fl.size(); m>0; m--)   // Lehmer code of the delivery order
   {
      size_t j = 0; if (f.reorder) {j = (size_t)(idx % m); idx /= m;}
      p.push_back("deliver " + U(j)); g.fl.erase(g.fl.begin()+(long) j);
   }
}
// beyond that: sampled per packet; a packet is delayed by 1-10 deliveries
inline void GenPatternSampled(Plan & p, GModel & g, Rng & fl, const GFaults & f)
{
   int guard = 0;
   while((!g.fl.empty())&&(guard++ < 2000))
   {
      size_t pos = 0;
      if ((f.reorder)&&(g.fl.size() > 1)&&(fl.pct(f.preorder))) pos = 1 + fl.below((uint32_t) std::min<size_t>(10, g.fl.size()-1));
      const int x = (int) fl.below(100);
      if ((f.drop)&&(x < f.pdrop)) {p.push_back("drop " + U(pos)); g.fl.erase(g.fl.begin()+(long) pos);}
      else if ((f.dup)&&(x < f.pdrop+f.pdup)) {p.push_back("dup " + U(pos)); p.push_back("deliver " + U(pos));}   // the copy stays in flight at the same position
      else {p.push_back("deliver " + U(pos)); g.fl.erase(g.fl.begin()+(long) pos);}
      if (fl.oneIn(40)) break;   // leave the rest in flight for a later round
   }
}

// ----------------------------------------------------------------------------------------------- the tunnel over a byte stream (PacketizedProxyDataIO)
// One run in twelve replaces the datagram network by what a deployment over TCP/serial uses: each gateway writes its packets through a PacketizedProxyDataIO
// (length-prefixed packets over a byte stream) whose child is a simulated stream with plan-given chunk schedules: partial writes, partial reads (incl. a length
// prefix that arrives in pieces), would-blocks.  The stream is reliable and ordered, so the property's second sentence applies in full: every Message that fits the
// gateway's limits arrives exactly once, in order, and nothing else arrives.
// cfg prop=C12 pp=1 mini= mtu= zl= slave=   |  chunks w|r <schedule>  |  msg 0 <gseed> <flatsize>  |  out 0 <maxBytes>  |  in <maxBytes>
inline Plan GenPP(uint64_t seed)
{
   Rng cfg(seed, "ppconfig"), wl(seed, "ppworkload"), fl(seed, "ppfaults");
   Plan p;
   const bool mini = cfg.oneIn(3);
   static const uint32_t mtus[] = {60, 100, 200, 576, 1500};
   const uint32_t mtu = mtus[cfg.below(5)];
   const int zl = mini ? (cfg.oneIn(2) ? 0 : (1 + (int) cfg.below(9))) : 0;
   const bool slave = cfg.oneIn(3);
   p.push_back("cfg prop=C12 pp=1 mini=" + I(mini) + " mtu=" + U(mtu) + " zl=" + I(zl) + " slave=" + I(slave));
   const int fcls = cfg.oneIn(6) ? 0 : -1;
   p.push_back("chunks w " + SchedToStr(GenChunkSchedule(fl, fcls)));
   p.push_back("chunks r " + SchedToStr(GenChunkSchedule(fl, fcls)));
   const uint32_t cap = mini ? (mtu-(kMiniPktHdr+kMiniChunkHdr)) : (mtu-kTunnelChunkHdr), sh = slave ? kSlaveHdr : 0;
   const int n = 1 + (int) wl.below(14);
   for (int i=0; i<n; i++)
   {
      const uint32_t k = wl.below(10);
      if (k < 5)
      {
         uint32_t sz;
         if (mini) {const uint32_t fit = (cap > sh) ? (cap-sh) : 0; sz = wl.oneIn(3) ? fit : (kFlatEmpty + wl.below((fit > kFlatEmpty) ? (fit-kFlatEmpty+1) : 1));}
         else sz = wl.oneIn(4) ? (uint32_t)(cap*(1 + wl.below(5)) - sh + wl.below(3)) : (kFlatEmpty + wl.below(wl.oneIn(3) ? 6000 : 300));
         p.push_back("msg 0 " + U(wl.u64() & 0xffffffffffffULL) + " " + U(RoundFlat(sz)));
      }
      else if (k < 8) p.push_back("out 0 " + U(wl.oneIn(3) ? (1 + wl.below(400)) : 0));
      else p.push_back("in " + U(wl.oneIn(3) ? (1 + wl.below(400)) : 0));
   }
   return p;
}

inline Plan Gen(uint64_t seed)
{
   {Rng pp(seed, "ppmode"); if (pp.oneIn(12)) return GenPP(seed);}
   Rng cfg(seed, "config"), wl(seed, "workload"), fl(seed, "faults");
   Plan p;
   GModel g;
   g.mini = cfg.oneIn(3);
   {
      static const uint32_t tm[] = {25, 25, 26, 27, 30, 40, 48, 64, 64, 100, 100, 200, 576, 1500, 9000};
      static const uint32_t mm[] = {28, 29, 33, 40, 50, 64, 64, 100, 100, 200, 576, 1500, 9000, 17, 27};
      if (cfg.oneIn(5)) g.mtu = (g.mini ? 28 : 25) + cfg.below(cfg.oneIn(2) ? 40 : 300);
                   else g.mtu = g.mini ? mm[cfg.below(15)] : tm[cfg.below(15)];
   }
   const int zl = g.mini ? (cfg.oneIn(3) ? 0 : (1 + (int) cfg.below(9))) : 0;
   const int senders = cfg.pct(40) ? 1 : (cfg.pct(66) ? 2 : 3);
   const bool slave = cfg.oneIn(3);
   const bool tag = cfg.oneIn(2);
   const int addr = Rng(seed, "noaddr").oneIn(6) ? 3 : (int) cfg.below(3);   // 3: sender 0's packets arrive without a (valid) source address
   const uint32_t rxsex = cfg.oneIn(5) ? 7 : 0;
   uint32_t sex[kMaxSenders]; for (int i=0; i<kMaxSenders; i++) sex[i] = cfg.oneIn(2) ? 0 : (cfg.oneIn(3) ? 7 : 9);
   g.ts = (g.mtu >= 64)&&(cfg.oneIn(6));
   g.slaveHdr = slave ? kSlaveHdr : 0;
   g.s.resize((size_t) senders);
   GFaults f;
   f.any     = !cfg.oneIn(4);                 // one run in four has a perfect transport (and no would-blocks)
   Rng cr(seed, "crowd"); const bool crowd = (!g.mini)&&(g.mtu >= 64)&&(cr.oneIn(20));
   if ((crowd)&&(!cr.oneIn(3))) f.any = false;   // (two crowd runs in three are otherwise perfect, so that a lost Message is owed)
   const bool wbOnly = f.any && cfg.oneIn(8);  // a perfect transport, but the senders' writes block now and then
   f.drop    = f.any && !wbOnly && !cfg.oneIn(3);   // each kind is off in a third of the faulty runs
   f.dup     = f.any && !wbOnly && !cfg.oneIn(3);
   f.reorder = f.any && !wbOnly && !cfg.oneIn(3);
   f.wblock  = f.any && (wbOnly || !cfg.oneIn(3));
   f.restart = f.any && !wbOnly && cfg.oneIn(6);
   (void) cfg.oneIn(4);   // (would-block + mini-tunnel compression used to be sampled in 1 run in 4 only while F26 was open; the draw is kept so that older seeds keep their plans)
   static const int rates[] = {2, 5, 10, 25}; static const int rrates[] = {5, 15, 40};
   f.pdrop = rates[cfg.below(4)]; f.pdup = rates[cfg.below(4)]; f.preorder = rrates[cfg.below(3)];
   const int fillBias = (int) cfg.below(5);   // 0-3: every Message uses that fill; 4: mixed
   p.push_back("cfg prop=C12 mini=" + I(g.mini) + " mtu=" + U(g.mtu) + " zl=" + I(zl) + " senders=" + I(senders) + " slave=" + I(slave) + " tag=" + I(tag) + " addr=" + I(addr)
             + " rxsex=" + U(rxsex) + " sex0=" + U(sex[0]) + " sex1=" + U(sex[1]) + " sex2=" + U(sex[2]) + " ts=" + I(g.ts));
   // message-id wrap-around: the simulated network adds a per-run base to the message id of every fragment header a sender writes (all incarnations alike), which is
   // what the receiver would see from a sender whose 32-bit counter started there; the counter then wraps within the first few Messages
   {Rng ib(seed, "idbase"); const uint32_t idbase = ((!g.mini)&&(ib.oneIn(4))) ? (0xffffffffu - ib.below(6)) : 0; if (idbase) p.push_back("cfg idbase=" + U(idbase));}
   p.push_back(std::string("cfg faults=") + (f.any ? "" : "none") + (f.drop ? "drop," : "") + (f.dup ? "dup," : "") + (f.reorder ? "reorder," : "") + (f.wblock ? "wblock," : "") + (f.restart ? "restart," : ""));

   const uint32_t cap = g.Cap(), sh = g.slaveHdr;
   // sizes are flattened sizes; the buffer the tunnel fragments is sh bytes longer
   const uint32_t maxFrag = (cap < 8) ? 120 : 20;                      // the longest Message, in packets
   const uint64_t maxFlat64 = std::min<uint64_t>((uint64_t) cap*maxFrag, 190000);
   uint32_t maxFlat = (uint32_t) std::max<uint64_t>(maxFlat64, kFlatEmpty+sh) - sh;
   // with a slave gateway, Messages whose buffer exceeds the default packet size (F24, fixed) in every second slave run
   const bool bigSlave = slave && ((cfg.below(60) % 2) == 0);
   if ((slave)&&(!bigSlave)) maxFlat = std::min<uint32_t>(maxFlat, (uint32_t) MUSCLE_MAX_PAYLOAD_BYTES_PER_UDP_ETHERNET_PACKET - kSlaveHdr);
   uint32_t common;
   {
      if (g.mini) {const uint32_t fit = (cap > sh) ? (cap-sh) : 0; static const uint32_t d[] = {0, 1, 2, 7}; const uint32_t dd = d[cfg.below(4)]; common = cfg.oneIn(2) ? ((fit > dd) ? (fit-dd) : fit) : (kFlatBase + cfg.below(40)); if (cfg.oneIn(3)) common = fit/2;}
      else switch(cfg.below(6))
      {
         case 0:  common = 2*cap-sh; break;                          // exactly two full packets
         case 1:  common = 2*cap-sh+1; break;                        // two full packets and one byte
         case 2:  common = cap+cap/2; break;
         case 3:  common = cap*(2+cfg.below(4))+cfg.below(cap); break;
         case 4:  common = (cap > sh) ? (cap-sh) : cap; break;        // exactly one packet
         default: common = kFlatBase + cfg.below(60); break;
      }
      if (common > maxFlat) common = maxFlat;
      common = RoundFlat(common);
   }
   const int maxMsgs = 1 + (int) wl.below(wl.oneIn(4) ? 30 : 10);
   const uint32_t maxPackets = 400; const uint64_t maxBytes = 600000;
   int msgs = 0; uint64_t bytes = 0; uint32_t plannedPackets = 0;
   struct Prev {int s; uint64_t gs; uint32_t sz;}; std::vector<Prev> prev;

   auto Small = [&](uint32_t span) -> uint32_t {const uint32_t r = wl.below(4); return (r == 0) ? kFlatEmpty : ((r == 1) ? kFlatFromOnly : (kFlatBase + wl.below(std::max<uint32_t>(1, span))));};
   auto PickSize = [&]() -> uint32_t
   {
      const uint32_t r = wl.below(100); uint32_t sz;
      if (g.mini)
      {
         const uint32_t fit = (cap > sh) ? (cap-sh) : 0;    // the largest flattened size that still fits
         const uint32_t fitR = (fit >= kFlatBase) ? fit : ((fit >= kFlatFromOnly) ? kFlatFromOnly : kFlatEmpty);   // ... that can be built
         bool over = false;
         if (r < 8) sz = kFlatEmpty; else if (r < 14) sz = kFlatFromOnly; else if (r < 26) sz = kFlatBase + wl.below(9);
         else if (r < 52) sz = common;
         else if (r < 62) sz = fit;                          // fills a packet exactly
         else if (r < 67) {sz = fit+1; over = true;}         // one byte too long: the sender drops it
         else if (r < 69) {sz = fit + 1 + wl.below(200); over = true;}
         else if (r < 85) sz = Small(std::min<uint32_t>(fit/3, 100));                          // several per packet
         else sz = kFlatEmpty + wl.below(std::max<uint32_t>(1, fit));
         if ((!over)&&(RoundFlat(sz) > fit)) sz = fitR;
      }
      else
      {
         if (r < 7) sz = kFlatEmpty; else if (r < 12) sz = kFlatFromOnly; else if (r < 22) sz = kFlatBase + wl.below(9);
         else if (r < 50) sz = common;
         else if (r < 62) {const uint32_t k = 1 + wl.below(4); const uint32_t b = k*cap; sz = ((b > sh+1) ? (b-sh) : b) + wl.below(3) - 1;}   // packet boundary -1, 0, +1
         else if (r < 80) sz = cap*(1+wl.below(maxFrag)) + wl.below(cap);
         else sz = Small(std::min<uint32_t>(cap/3, 100));                                      // several per packet
      }
      if (sz > maxFlat) sz = maxFlat;
      return RoundFlat(sz);
   };
   auto EmitMsg = [&](int s, uint32_t sz, bool allowRepeat)
   {
      uint64_t gs;
      if ((allowRepeat)&&(!prev.empty())&&(wl.oneIn(15))) {const Prev & pr = prev[wl.below((uint32_t) prev.size())]; s = pr.s; gs = pr.gs; sz = pr.sz;}   // the very same Message again
      else
      {
         const uint64_t fill = (fillBias < 4) ? (uint64_t) fillBias : wl.below(4);
         gs = (wl.u64() & 0xffffffffffULL) | (fill << 40);
      }
      p.push_back("msg " + I(s) + " " + U(gs) + " " + U(sz));
      g.Enqueue(s, sz); msgs++; bytes += sz; plannedPackets += std::max<uint32_t>(1, g.NumPackets(sz));
      Prev pr = {s, gs, sz}; prev.push_back(pr);
   };
   auto EmitOut = [&](int s, uint32_t mx) {p.push_back("out " + I(s) + " " + U(mx)); (void) g.Out(s, mx);};
   auto Flush = [&](int s) {for (int i=0; (i<60)&&(!g.Idle(s)); i++) EmitOut(s, 0);};
   auto NetPhase = [&]()
   {
      if (g.fl.empty()) return;
      p.push_back("chk " + U(g.fl.size()));
      if (!(f.drop||f.dup||f.reorder))
      {
         size_t k = g.fl.size(); if (wl.oneIn(5)) k = wl.below((uint32_t) k+1);     // in order; possibly leaving a tail in flight
         for (size_t i=0; i<k; i++) {p.push_back("deliver 0"); g.fl.erase(g.fl.begin());}
      }
      else if (g.fl.size() <= 6) GenPatternIndexed(p, g, fl, f);
      else GenPatternSampled(p, g, fl, f);
   };
   auto In = [&]() {p.push_back(wl.oneIn(6) ? "in 1" : "in");};

   // crowd prelude: one sender's long Message arrives fragment by fragment while hundreds of other sources are heard in between -- never more than 120 between two
   // of its fragments, so the receiver, which remembers the 256 most recently heard sources, must not forget it
   if (crowd)
   {
      const int s = (int) cr.below((uint32_t) senders);
      uint32_t sz = cap*(4+cr.below(3)) + cr.below(cap); if (sz > maxFlat) sz = maxFlat;
      if (cr.oneIn(3)) EmitMsg((int) cr.below((uint32_t) senders), kFlatBase + cr.below(20), false);   // (someone was heard before)
      EmitMsg(s, RoundFlat(sz), false);
      for (int i=0; i<senders; i++) Flush(i);
      while(!g.fl.empty())
      {
         p.push_back("deliver 0"); g.fl.erase(g.fl.begin());
         if (!cr.oneIn(4)) p.push_back("in");
         p.push_back("crowd " + U(40 + cr.below(80)));
      }
      p.push_back("in");
   }
   const int rounds = 1 + (int) wl.below(6);
   for (int round=0; (round<rounds)||(msgs == 0); round++)
   {
      if ((msgs >= maxMsgs)&&(msgs > 0)) break;
      if ((plannedPackets >= maxPackets)||(bytes >= maxBytes)||(p.size() > 900)) break;

      // the scenario behind finding F10: a sender dies after the head of a Message; its successor's Message with the same id and size loses its head
      if ((f.restart)&&(wl.oneIn(6)))
      {
         const int s = (int) wl.below((uint32_t) senders);
         if ((g.s[(size_t) s].done <= 4)&&(g.Idle(s)))
         {
            const uint32_t k = g.s[(size_t) s].done;
            uint32_t C = common; if ((!g.mini)&&(g.NumPackets(C) < 2)) C = RoundFlat(std::min(maxFlat, 2*cap+cap/2));
            EmitMsg(s, C, false);
            if (wl.oneIn(4)) EmitOut(s, 0); else EmitOut(s, 1);
            NetPhase(); In();
            p.push_back("restart " + I(s)); g.Restart(s);
            for (uint32_t i=0; i<k; i++) EmitMsg(s, wl.oneIn(2) ? kFlatEmpty : kFlatFromOnly, false);   // bring the new incarnation's message id up to the old one's
            EmitMsg(s, C, false);
            Flush(s);
            if ((f.drop)&&(!g.fl.empty())&&(wl.pct(70))) {size_t victim = 0; for (uint32_t i=0; (i<k)&&(victim+1 < g.fl.size()); i++) victim++; p.push_back("drop " + U(victim)); g.fl.erase(g.fl.begin()+(long) victim);}
            NetPhase(); In();
         }
      }

      // enqueue
      const bool burst = wl.oneIn(4);
      const int k = burst ? (3 + (int) wl.below(6)) : (1 + (int) wl.below(4));
      for (int i=0; (i<k)&&(msgs < 30)&&(plannedPackets < maxPackets)&&(bytes < maxBytes); i++)
      {
         const int s = (int) wl.below((uint32_t) senders);
         uint32_t sz = PickSize();
         if (burst) {sz = Small(std::min<uint32_t>(cap/3, 60)); if ((g.mini)&&(sz+sh > cap)) sz = (kFlatFromOnly+sh <= cap) ? kFlatFromOnly : kFlatEmpty;}
         const uint32_t np = std::max<uint32_t>(1, g.NumPackets(sz));
         if (plannedPackets+np > maxPackets+40) sz = kFlatEmpty;
         EmitMsg(s, sz, true);
         if (wl.oneIn(6)) EmitOut(s, wl.oneIn(2) ? 1 : 0);   // output interleaved with enqueueing
      }
      // output
      for (int i=0; i<senders; i++)
      {
         const int s = (int)((i + round) % senders);
         if (wl.oneIn(8)) continue;                           // this sender stays silent in this round
         if ((f.wblock)&&(fl.oneIn(3))) {const uint32_t n = 1 + fl.below(3); p.push_back("wblock " + I(s) + " " + U(n)); g.s[(size_t) s].wb += n;}
         const uint32_t r = wl.below(100);
         if (r < 55) Flush(s);
         else if (r < 80) {const int n = 1 + (int) wl.below(4); for (int j=0; j<n; j++) EmitOut(s, 1);}            // a few packets only
         else EmitOut(s, ((g.mini)&&(zl > 0)) ? 1 : (1 + wl.below(3*g.mtu)));   // (with compression the model cannot know how many bytes a packet has)
         if ((f.restart)&&(fl.oneIn(5))) {p.push_back("restart " + I(s)); g.Restart(s);}
      }
      if ((crowd)&&(cr.oneIn(3))) p.push_back("crowd " + U(1 + cr.below(100)));
      // network and receiver
      if (!wl.oneIn(5)) NetPhase();
      if (!wl.oneIn(5)) In();
   }
   // 39 plans in 40 end with an explicit flush of every sender (DoOutput until the model says nothing is held back), so that a
   // packet held after a would-block -- which HasBytesToOutput() does not report (finding) -- is stranded at the end of few runs only.
   if (!wl.oneIn(40))
   {
      for (int s=0; s<senders; s++) Flush(s);
      NetPhase(); In();
   }
   return p;
}

// ----------------------------------------------------------------------------------------------- execution
struct Pkt
{
   std::string b; int src; uint32_t seq;
   uint8_t chunks; bool startsMid, endsPartial, compressed;   // what the packet contains (parsed when it was written; statistics only)
   Pkt() : src(0), seq(0), chunks(0), startsMid(false), endsPartial(false), compressed(false) {}
};
struct Harness;

class SimPacketDataIO : public PacketDataIO
{
public:
   SimPacketDataIO(Harness * h, int src, uint32 mtu) : _h(h), _src(src), _mtu(mtu) {}
   virtual uint32 GetMaximumPacketSize() const {return _mtu;}
   virtual const IPAddressAndPort & GetPacketSendDestination() const {return _dst;}
   virtual void SetPacketSendDestination(const IPAddressAndPort & d) {_dst = d;}
   virtual io_status_t ReadFrom(void * b, uint32 n, IPAddressAndPort & src);
   virtual io_status_t WriteTo(const void * b, uint32 n, const IPAddressAndPort &);
   virtual void FlushOutput() {}
   virtual void Shutdown() {}
   virtual const ConstSocketRef & GetReadSelectSocket() const {return GetNullSocket();}
   virtual const ConstSocketRef & GetWriteSelectSocket() const {return GetNullSocket();}
private:
   Harness * _h; int _src; uint32 _mtu; IPAddressAndPort _dst;
};

struct SentRec {int uid; bool must; bool slaveBig;};
struct Unique {std::string flat; int sent[kMaxSenders]; int got[kMaxSenders]; uint32_t nfrag; Unique() : nfrag(0) {for (int i=0; i<kMaxSenders; i++) sent[i] = got[i] = 0;}};
struct SenderState
{
   AbstractMessageIOGatewayRef gw;
   IPAddressAndPort addr; uint32_t sex; bool excluded;
   uint32_t wblock, nextSeq, restarts, dupDelivered, maxDeliveredSeq; bool anyDelivered, lastWrittenEndsPartial, rxMidMessage;
   std::set<uint32_t> deliveredSeqs;
   std::vector<SentRec> sentSeq; std::vector<int> gotSeq;
   SenderState() : sex(0), excluded(false), wblock(0), nextSeq(0), restarts(0), dupDelivered(0), maxDeliveredSeq(0), anyDelivered(false), lastWrittenEndsPartial(false), rxMidMessage(false) {}
};

struct Harness : public AbstractGatewayMessageReceiver
{
   Cfg cfg; RunResult & res; TraceHash th; Stats & st;
   bool mini, slave, tag; uint32_t mtu; int zl, senders; uint32_t rxsex, idbase; uint64_t ts;
   SenderState S[kMaxSenders];
   AbstractMessageIOGatewayRef R;
   std::vector<Pkt> inflight; std::deque<Pkt> rx;
   struct Delivered {MessageRef m; IPAddressAndPort from;}; std::vector<Delivered> pending;
   std::map<std::string, int> uidOf; std::vector<Unique> uniq;
   std::string ioViolCls, ioViolDetail;    // a violation noticed inside a DataIO callback; raised once the gateway call has returned
   uint64_t drops, dups, reorders, wouldBlocks, restarts, packets, delivered, msgsSent;
   int lastDeliveredSrc;
   // "crowd": many further sources, each sending one small Message over a perfect path (the receiver keeps per-source reassembly state in a table of limited size)
   AbstractMessageIOGatewayRef CG; std::vector<std::string> crowdCapture, crowdFlat; std::vector<int> crowdGot; uint32_t crowdSince[kMaxSenders]; uint64_t crowdPkts;

   Harness(const Plan & plan, RunResult & r) : cfg(plan), res(r), st(r.stats), drops(0), dups(0), reorders(0), wouldBlocks(0), restarts(0), packets(0), delivered(0), msgsSent(0), lastDeliveredSrc(-1), crowdPkts(0)
   {
      for (int i=0; i<kMaxSenders; i++) crowdSince[i] = 0;
      for (int i=0; i<NUM_K; i++) k[i] = 0;
      mini    = cfg.i("mini", 0) != 0;
      slave   = cfg.i("slave", 0) != 0;
      tag     = cfg.i("tag", 1) != 0;
      mtu     = EffMtu(mini, (uint32_t) std::min<long long>(std::max<long long>(cfg.i("mtu", 100), 0), 65536));
      zl      = (int) std::min<long long>(std::max<long long>(cfg.i("zl", 0), 0), 9);
      senders = (int) std::min<long long>(std::max<long long>(cfg.i("senders", 1), 1), kMaxSenders);
      rxsex   = (uint32_t) cfg.i("rxsex", 0);
      idbase  = (uint32_t) cfg.i("idbase", 0);
      ts      = (uint64_t) cfg.i("ts", 0);
      const int addr = (int) cfg.i("addr", 0);
      for (int s=0; s<senders; s++)
      {
         static const char * keys[kMaxSenders] = {"sex0", "sex1", "sex2"};
         S[s].sex = (uint32_t) cfg.i(keys[s], 0);
         S[s].excluded = (rxsex != 0)&&(S[s].sex == rxsex);
         // addr 0: one host, different ports; 1: different hosts, the same port; 2: both differ
         S[s].addr = IPAddressAndPort(IPAddress((((uint32)10)<<24) | (uint32)(1 + ((addr == 0) ? 0 : s))), (uint16)(5000 + ((addr == 1) ? 0 : s)));
         if ((addr == 3)&&(s == 0)) S[s].addr = IPAddressAndPort();   // (a transport that cannot name this peer: an invalid address is still one distinct source)
         S[s].gw = MakeGateway(s);
      }
      R = MakeGateway(-1);
   }
   virtual ~Harness() {for (int s=0; s<kMaxSenders; s++) S[s].gw.Reset(); R.Reset(); CG.Reset();}

   AbstractMessageIOGatewayRef MakeGateway(int s)   // s == -1: the receiver; s == -2: the gateway all crowd sources' packets are made with
   {
      AbstractMessageIOGatewayRef sl;
      if (slave)
      {
         MessageIOGateway * g = new MessageIOGateway;
         if ((s == -1)&&(!tag)) g->SetPacketRemoteLocationTaggingEnabled(false);
         sl.SetRef(g);
      }
      AbstractMessageIOGatewayRef ret;
      const uint32 sexID = (s == -1) ? rxsex : ((s >= 0) ? S[s].sex : 0);
      if (mini) {MiniPacketTunnelIOGateway * g = new MiniPacketTunnelIOGateway(sl, mtu); g->SetSourceExclusionID(sexID); if (s >= 0) g->SetZLibCompressionLevel((uint8) zl); ret.SetRef(g);}
           else {PacketTunnelIOGateway * g = new PacketTunnelIOGateway(sl, mtu); g->SetSourceExclusionID(sexID); ret.SetRef(g);}
      ret()->SetDataIO(DataIORef(new SimPacketDataIO(this, s, mtu)));
      if (ts > 0) ret()->SetSuggestedMaximumTimeSlice(ts);
      return ret;
   }

   // hot counters (per packet / per Message); folded into the run's statistics at the end
   enum {K_PACKED = 0, K_EXACT_MTU, K_MINI_COMP, K_MINI_FALLBACK, K_LATE, K_DUP_PKT, K_INTERLEAVED, K_OTHER_MID, K_SEX_PKT, K_TAGS, K_DELIVERED, K_TWICE, K_MULTI_FRAG, K_P_ID_WRAPPED, NUM_K};
   uint64_t k[NUM_K];
   void FoldCounters()
   {
      static const char * names[NUM_K] = {"p.packed_multi_msg_packet", "p.packet_exactly_mtu", "p.mini_packet_compressed", "p.mini_packet_compress_fallback", "p.late_packet", "p.duplicate_packet_delivered",
                                          "p.interleaved_senders", "p.other_sender_mid_message", "p.sex_excluded_packet", "remote_location_tags_checked", "msgs_delivered", "p.whole_msg_delivered_twice_after_dup", "p.multi_fragment_msg", "p.message_id_wrapped_around"};
      for (int i=0; i<NUM_K; i++) {if (k[i]) st.inc(names[i], k[i]); k[i] = 0;}
   }
   [[noreturn]] void Violate(const std::string & cls, const std::string & detail) {FoldCounters(); res.hash = th.h; Fail(cls, detail);}
   // violation classes that the unchanged library is known to produce go through here (a measurement build can count them instead)
   void Finding(const std::string & cls, const std::string & detail)
   {
#ifdef C12_COUNT_FINDINGS
      st.inc("counted." + cls); (void) detail;
#else
      Violate(cls, detail);
#endif
   }
   std::string ConfigSummary() const {return "mini=" + I(mini) + " zl=" + I(zl) + " mtu=" + U(mtu) + " slave=" + I(slave) + " senders=" + I(senders) + " ts=" + U(ts);}
   int SrcOf(const IPAddressAndPort & a) const {for (int s=0; s<senders; s++) if (S[s].addr == a) return s; return -1;}
   static IPAddressAndPort CrowdAddr(int idx) {return IPAddressAndPort(IPAddress((((uint32)172)<<24) | (uint32)(idx+1)), (uint16) 7000);}
   int CrowdIdxOf(const IPAddressAndPort & a) const {for (size_t i=0; i<crowdFlat.size(); i++) if (CrowdAddr((int) i) == a) return (int) i; return -1;}
   bool AnyRestart() const {return restarts > 0;}

   // ---- network side (called from inside gateway calls: must not throw)
   io_status_t OnWrite(int src, const void * b, uint32 n)
   {
      if (src == -2) {crowdCapture.push_back(std::string((const char *) b, n)); return io_status_t((int32) n);}
      if ((src < 0)||(src >= senders)) return io_status_t(B_BAD_OBJECT);   // the receiver never writes
      SenderState & ss = S[src];
      if (ss.wblock > 0) {ss.wblock--; wouldBlocks++; th.u(0xB10C0000u + (uint64_t) src); return io_status_t();}
      if ((n > mtu)&&(ioViolCls.empty())) {ioViolCls = "mtu_exceeded"; ioViolDetail = "sender " + I(src) + " wrote a packet of " + U(n) + " bytes although the MTU is " + U(mtu);}
      inflight.push_back(Pkt()); Pkt & p = inflight.back();
      p.b.assign((const char *) b, n); p.src = src; p.seq = ss.nextSeq++;
      if ((idbase != 0)&&(!mini))
      {
         // rebase the message id of every fragment header in this packet (documented layout: magic, exclusion id, MESSAGE ID, offset, chunk size, total size)
         size_t o = 0; uint8 * d = (uint8 *) &p.b[0];
         while(o+kTunnelChunkHdr <= n)
         {
            const uint32 id = DefaultEndianConverter::Import<uint32>(d+o+8), cs = DefaultEndianConverter::Import<uint32>(d+o+16);
            const uint32 nid = id + idbase; DefaultEndianConverter::Export(nid, d+o+8); if (nid < id) k[K_P_ID_WRAPPED]++;
            o += kTunnelChunkHdr; if (o+cs > n) break; o += cs;
         }
      }
      Parse(p);
      ss.lastWrittenEndsPartial = p.endsPartial;
      if (p.chunks >= 2) k[K_PACKED]++;
      if (n == mtu) k[K_EXACT_MTU]++;
      if (mini && (zl > 0)) k[p.compressed ? K_MINI_COMP : K_MINI_FALLBACK]++;
      packets++;
      th.u(((uint64_t) src<<32) | n); th.b(b, n);
      return io_status_t((int32) n);
   }
   io_status_t OnRead(void * b, uint32 n, IPAddressAndPort & from)
   {
      if (rx.empty()) return io_status_t();
      const Pkt & p = rx.front();
      const uint32 nb = (uint32) std::min<size_t>(n, p.b.size());
      if (nb < p.b.size()) st.inc("p.rx_truncated");
      memcpy(b, p.b.data(), nb);
      if (p.src >= 0) {from = S[p.src].addr; crowdSince[p.src] = 0;}
      else
      {
         from = CrowdAddr(-(p.src+2));
         // The receiver may forget a source once more than 256 others have been heard since: long before that the Messages this source has not completed yet stop being owed
         for (int s=0; s<senders; s++) if (++crowdSince[s] == 240) {st.inc("p.crowd_may_have_evicted_sender"); for (size_t i=S[s].gotSeq.size(); i<S[s].sentSeq.size(); i++) S[s].sentSeq[i].must = false;}
      }
      rx.pop_front();
      return io_status_t((int32) nb);
   }
   void Parse(Pkt & p) const
   {
      p.chunks = 0; p.startsMid = p.endsPartial = p.compressed = false;
      const uint8 * d = (const uint8 *) p.b.data(); const size_t n = p.b.size();
      if (mini)
      {
         if (n < kMiniPktHdr) return;
         p.compressed = (DefaultEndianConverter::Import<uint32>(d+8) >> 24) != 0;
         if (p.compressed) return;
         size_t o = kMiniPktHdr;
         while(o+kMiniChunkHdr <= n) {const uint32 cs = DefaultEndianConverter::Import<uint32>(d+o); o += kMiniChunkHdr; if (o+cs > n) break; o += cs; if (p.chunks < 255) p.chunks++;}
      }
      else
      {
         size_t o = 0;
         while(o+kTunnelChunkHdr <= n)
         {
            const uint32 off = DefaultEndianConverter::Import<uint32>(d+o+12), cs = DefaultEndianConverter::Import<uint32>(d+o+16), tot = DefaultEndianConverter::Import<uint32>(d+o+20);
            o += kTunnelChunkHdr; if (o+cs > n) break; o += cs;
            if ((p.chunks == 0)&&(off > 0)) p.startsMid = true;
            p.endsPartial = ((uint64_t) off+cs < tot);
            if (p.chunks < 255) p.chunks++;
         }
      }
   }

   // ---- receiver callback: queue only; the oracle runs when the gateway call has returned
   virtual void MessageReceivedFromGateway(const MessageRef & msg, void * userData)
   {
      Delivered d; d.m = msg; if (userData) d.from = *((const IPAddressAndPort *) userData);
      pending.push_back(d);
   }

   void RaiseIOViolation() {if (!ioViolCls.empty()) {std::string c = ioViolCls, d = ioViolDetail; ioViolCls.clear(); Violate(c, d);}}

   // ---- message construction
   static MessageRef BuildMsg(int sender, uint64_t gseed, uint32_t size)
   {
      MessageRef m = GetMessageFromPool((uint32)(gseed & 0xffffffffu));
      if (m() == NULL) return m;
      if (size < kFlatFromOnly) return m;
      (void) m()->AddInt32("from", sender);
      if (size < kFlatBase) return m;
      const uint32 n = size - kFlatOverhead;
      std::string buf(n, '\0');
      uint8 * q = (uint8 *) &buf[0];   // valid (never NULL) for n == 0 too
      const uint8 letter = (uint8)('A' + (gseed % 26));
      switch((gseed >> 40) & 3)
      {
         case 0:  memset(q, letter, n); break;                                                               // the Message's own letter everywhere
         case 1:  {const uint32 h = n/2; for (uint32 k=0; k<h; k++) q[k] = (uint8)(k*7+3); memset(q+h, letter, n-h);} break;   // a prefix every Message shares, then the letter
         case 2:  {Rng r(gseed, "fill"); uint32 k = 0; while(k+8 <= n) {const uint64_t v = r.u64(); memcpy(q+k, &v, 8); k += 8;} uint64_t v = r.u64(); for (; k<n; k++) {q[k] = (uint8) v; v >>= 8;}} break;   // incompressible
         default: for (uint32 k=0; k<n; k++) q[k] = ((k & 15) == 0) ? letter : (uint8)(k*13+5); break;          // shared by all Messages but for every 16th byte
      }
      (void) m()->AddData("p", B_RAW_TYPE, q, n);
      return m;
   }

   // ---- plan ops
   void OpMsg(int s, uint64_t gseed, uint32_t size)
   {
      s = ((s % senders) + senders) % senders;
      // (the generator never exceeds these; they keep a hand-edited or minimised plan from turning into millions of packets)
      {const uint32_t cap = mini ? (mtu-(kMiniPktHdr+kMiniChunkHdr)) : (mtu-kTunnelChunkHdr); const uint64_t lim = std::min<uint64_t>(200000, (uint64_t) cap*150 + 512); if (size > lim) size = (uint32_t) lim;}
      if (msgsSent >= 200) return;
      MessageRef m = BuildMsg(s, gseed, size);
      if (m() == NULL) Violate("harness", "could not build a Message");
      const std::string f = Flat(m);
      st.inc((f.size() == RoundFlat(size)) ? "size_model_exact" : "size_model_off");
      const uint32_t bufSize = (uint32_t) f.size() + (slave ? kSlaveHdr : 0);
      int uid; std::map<std::string, int>::iterator it = uidOf.find(f);
      if (it == uidOf.end())
      {
         uid = (int) uniq.size(); uniq.push_back(Unique()); uniq.back().flat = f; uidOf[f] = uid;
         uniq.back().nfrag = mini ? 1 : (uint32_t)((bufSize + (mtu-kTunnelChunkHdr) - 1)/(mtu-kTunnelChunkHdr));
      }
      else {uid = it->second; st.inc("p.identical_msg_resent");}
      uniq[(size_t) uid].sent[s]++;
      SentRec sr; sr.uid = uid;
      const bool fits = (!mini)||((kMiniPktHdr+kMiniChunkHdr+bufSize) <= mtu);
      // With a slave gateway the receiving side hands every reassembled buffer to the slave through a ByteBufferPacketDataIO whose
      // maximum packet size is the library default, so longer buffers are cut off and the Message is lost (finding, reported under
      // its own class at the end of the run; the sequence comparison treats such Messages as optional so that it cannot mask anything else).
      sr.slaveBig = (slave)&&(fits)&&(!S[s].excluded)&&(bufSize > (uint32_t) MUSCLE_MAX_PAYLOAD_BYTES_PER_UDP_ETHERNET_PACKET);
      sr.must = fits && !S[s].excluded && !sr.slaveBig;
      if (sr.slaveBig) st.inc("p.msg_beyond_slave_packet_limit");
      if (!fits) st.inc("p.mini_oversize_msg");
      if (size < kFlatFromOnly) st.inc("p.empty_msg");
      if ((!S[s].sentSeq.empty())&&(uniq[(size_t) S[s].sentSeq.back().uid].flat.size() == f.size())&&(uniq[(size_t) uid].nfrag > 1)) st.inc("p.equal_size_multifrag_neighbours");
      S[s].sentSeq.push_back(sr);
      if (S[s].gw()->AddOutgoingMessage(m).IsError()) Violate("harness", "AddOutgoingMessage failed");
      msgsSent++;
      th.u((uint64_t) s); th.u(gseed); th.u(f.size());
   }
   int32 OpOut(int s, uint32_t maxBytes)
   {
      s = ((s % senders) + senders) % senders;
      const uint64_t wb0 = wouldBlocks;
      const io_status_t r = S[s].gw()->DoOutput(maxBytes ? maxBytes : MUSCLE_NO_LIMIT);
      RaiseIOViolation();
      if (r.IsError()) Violate("sender_error", "sender " + I(s) + " DoOutput returned " + r.GetStatus()());
      th.u((uint64_t) r.GetByteCount());
      if ((wouldBlocks > wb0)&&(S[s].gw()->HasBytesToOutput() == false)) st.inc("p.packet_held_while_gateway_reports_idle");
      return r.GetByteCount();
   }
   void OpWBlock(int s, uint32_t n) {s = ((s % senders) + senders) % senders; S[s].wblock += std::min<uint32_t>(n, 1000);}
   void OpDeliver(size_t i, bool inDrain)
   {
      if (inflight.empty()) return;
      i %= inflight.size();
      const int src = inflight[i].src; const uint32_t seq = inflight[i].seq;
      bool oldest = true; for (size_t k=0; k<i; k++) if ((inflight[k].src == src)&&(inflight[k].seq < seq)) {oldest = false; break;}
      rx.push_back(Pkt()); std::swap(rx.back(), inflight[i]);
      inflight.erase(inflight.begin()+(long) i);
      const Pkt & p = rx.back();
      SenderState & ss = S[src];
      if (!oldest) reorders++;
      if ((ss.anyDelivered)&&(seq < ss.maxDeliveredSeq)) k[K_LATE]++;
      if (ss.deliveredSeqs.insert(seq).second == false) {ss.dupDelivered++; k[K_DUP_PKT]++;}
      if ((!ss.anyDelivered)||(seq > ss.maxDeliveredSeq)) ss.maxDeliveredSeq = seq;
      ss.anyDelivered = true;
      if ((lastDeliveredSrc >= 0)&&(lastDeliveredSrc != src)) {k[K_INTERLEAVED]++; if (S[lastDeliveredSrc].rxMidMessage) k[K_OTHER_MID]++;}
      ss.rxMidMessage = p.endsPartial; lastDeliveredSrc = src;
      if (ss.excluded) k[K_SEX_PKT]++;
      delivered++;
      th.u(((uint64_t) src<<32) | seq); (void) inDrain;
   }
   void OpDrop(size_t i)
   {
      if (inflight.empty()) return;
      i %= inflight.size();
      const Pkt & p = inflight[i];
      if (!mini) st.inc(p.startsMid ? "p.dropped_continuation_fragment" : (p.endsPartial ? "p.dropped_head_fragment" : "p.dropped_whole_msg_packet"));
      th.u(((uint64_t) p.src<<32) | p.seq);
      inflight.erase(inflight.begin()+(long) i); drops++;
   }
   void OpDup(size_t i)
   {
      if (inflight.empty()) return;
      i %= inflight.size();
      const Pkt p = inflight[i];
      inflight.insert(inflight.begin()+(long) i+1, p); dups++;
      th.u(((uint64_t) p.src<<32) | p.seq);
   }
   void OpIn(uint32_t maxBytes)
   {
      for (int guard=0; guard<100000; guard++)
      {
         const io_status_t r = R()->DoInput(*this, maxBytes ? maxBytes : MUSCLE_NO_LIMIT);
         RaiseIOViolation();
         if (r.IsError()) Violate("receiver_error", std::string("receiver DoInput returned ") + r.GetStatus()());
         th.u((uint64_t) r.GetByteCount());
         ProcessDelivered();
         if (r.GetByteCount() <= 0) break;
      }
   }
   void OpCrowd(uint32_t n)
   {
      if (mini) return;   // (the mini tunnel keeps no per-source state)
      n = std::min<uint32_t>(n, 200);
      if (CG() == NULL) CG = MakeGateway(-2);
      for (uint32_t i=0; (i<n)&&(crowdFlat.size() < 900); i++)
      {
         const int idx = (int) crowdFlat.size();
         MessageRef m = GetMessageFromPool(0x63727764); if (m() == NULL) Violate("harness", "could not build a Message");
         (void) m()->AddInt32("cidx", idx);
         crowdFlat.push_back(Flat(m)); crowdGot.push_back(0);
         if (CG()->AddOutgoingMessage(m).IsError()) Violate("harness", "AddOutgoingMessage failed");
         crowdCapture.clear();
         for (int guard=0; (guard<1000)&&(CG()->HasBytesToOutput()); guard++) {const io_status_t r = CG()->DoOutput(MUSCLE_NO_LIMIT); if (r.IsError()) Violate("sender_error", std::string("crowd sender DoOutput returned ") + r.GetStatus()());}
         for (size_t c=0; c<crowdCapture.size(); c++) {rx.push_back(Pkt()); rx.back().b.swap(crowdCapture[c]); rx.back().src = -(idx+2); crowdPkts++;}
         crowdCapture.clear();
      }
      th.u((uint64_t) n);
      OpIn(0);
   }
   void OpRestart(int s)
   {
      s = ((s % senders) + senders) % senders;
      if ((S[s].lastWrittenEndsPartial)||(S[s].gw()->HasBytesToOutput())) st.inc("p.restart_mid_message");
      S[s].gw.Reset();
      S[s].wblock = 0; S[s].lastWrittenEndsPartial = false;
      S[s].gw = MakeGateway(s);
      S[s].restarts++; restarts++;
      th.u((uint64_t) s);
   }

   // ---- the oracle, per delivered Message
   std::string Describe(const std::string & f, const MessageRef & m, int src) const
   {
      int32 from = -1; const bool hasFrom = m()->FindInt32("from", from).IsOK();
      std::string d = U(f.size()) + " bytes, what=" + U(m()->what) + (hasFrom ? (", claims sender " + I(from)) : ", no sender field") + ", packet source " + I(src);
      // is it a splice of two sent Messages?
      size_t bestP = 0, bestS = 0; int pu = -1, su = -1;
      for (size_t u=0; u<uniq.size(); u++)
      {
         const std::string & g = uniq[u].flat; if (g.size() != f.size()) continue;
         size_t a = 0; while((a < f.size())&&(f[a] == g[a])) a++;
         size_t b = 0; while((b < f.size())&&(f[f.size()-1-b] == g[g.size()-1-b])) b++;
         if (a > bestP) {bestP = a; pu = (int) u;}
         if (b > bestS) {bestS = b; su = (int) u;}
      }
      if ((pu >= 0)&&(su >= 0)&&(bestP+bestS >= f.size())) d += "; it is the first " + U(f.size()-bestS) + " bytes of sent Message #" + I(pu) + " followed by the last " + U(bestS) + " bytes of sent Message #" + I(su);
      else if (pu >= 0) d += "; longest prefix shared with a sent Message of that size: " + U(bestP) + " bytes, longest suffix: " + U(bestS) + " bytes";
      else d += "; no sent Message has that size";
      return d;
   }
   void ProcessDelivered()
   {
      for (size_t i=0; i<pending.size(); i++)
      {
         MessageRef m = pending[i].m; const IPAddressAndPort from = pending[i].from;
         if (m() == NULL) continue;
         const int src = SrcOf(from);
         if ((slave)&&(tag))
         {
            IPAddressAndPort rl;
            if (m()->FindFlat(PR_NAME_PACKET_REMOTE_LOCATION, rl).IsOK())
            {
               if (!(rl == from)) {Violate("wrong_source", std::string("the remote-location tag of a delivered Message says ") + rl.ToString()() + " but the gateway reported source " + from.ToString()());}
               (void) m()->RemoveName(PR_NAME_PACKET_REMOTE_LOCATION);
               k[K_TAGS]++;
            }
         }
         const std::string f = Flat(m);
         k[K_DELIVERED]++;
         th.u((uint64_t)(int64_t) src); th.b(f.data(), f.size());
         const int cidx = (src < 0) ? CrowdIdxOf(from) : -1;
         if (cidx >= 0)
         {
            if (f != crowdFlat[(size_t) cidx]) Violate((uidOf.find(f) != uidOf.end()) ? "wrong_source" : "not_sent", "the receiver delivered, as coming from crowd source " + I(cidx) + ", something other than the one Message that source sent: " + Describe(f, m, src));
            if (++crowdGot[(size_t) cidx] > 1) Violate("dup_without_dup_fault", "the one Message of crowd source " + I(cidx) + " (whose packets were delivered once and in order) was delivered " + I(crowdGot[(size_t) cidx]) + " times");
            continue;
         }
         std::map<std::string, int>::const_iterator it = uidOf.find(f);
         if (it == uidOf.end())
         {
            const std::string d = Describe(f, m, src);
            if ((src >= 0)&&(S[src].restarts > 0)) {Finding("not_sent_after_restart", "after a sender restart of source " + I(src) + " the receiver delivered a Message that was never sent: " + d); continue;}
            Violate("not_sent", "the receiver delivered a Message that was never sent: " + d + (AnyRestart() ? " (another source had a restart)" : ""));
         }
         Unique & u = uniq[(size_t) it->second];
         if (src < 0) {Violate("wrong_source", std::string("a sent Message was delivered with source address ") + from.ToString()() + ", which is no sender's address");}
         int32 claimed = -1;
         if ((m()->FindInt32("from", claimed).IsOK())&&(claimed != src)) {Violate("wrong_source", "Message #" + I(it->second) + " of sender " + I(claimed) + " was delivered as coming from source " + I(src));}
         if (u.sent[src] == 0) {Violate("wrong_source", "Message #" + I(it->second) + " was delivered as coming from source " + I(src) + ", which never sent it");}
         if (S[src].excluded) st.inc("p.excluded_source_delivered");   // (counted, not judged: source exclusion is a feature of the gateway, not part of "never delivers a Message that was not sent")
         u.got[src]++;
         if (u.got[src] > u.sent[src])
         {
            if (S[src].dupDelivered == 0) {Violate("dup_without_dup_fault", "Message #" + I(it->second) + " (" + U(f.size()) + " bytes) was sent " + I(u.sent[src]) + " time(s) by source " + I(src) + " but delivered " + I(u.got[src]) + " times although no packet of that source was duplicated" + ((S[src].restarts > 0) ? " (the source had a restart)" : ""));}
            k[K_TWICE]++;
         }
         if (u.nfrag > 1) k[K_MULTI_FRAG]++;
         S[src].gotSeq.push_back(it->second);
      }
      pending.clear();
   }

   // delivered sequence of source s == its sent sequence (Messages that cannot pass the gateway's limits may be missing)
   bool SequenceMatches(int s, std::string & why) const
   {
      const std::vector<SentRec> & sent = S[s].sentSeq; const std::vector<int> & got = S[s].gotSeq;
      size_t j = 0;
      for (size_t i=0; i<sent.size(); i++)
      {
         if ((j < got.size())&&(got[j] == sent[i].uid)) {j++; continue;}
         if (sent[i].must)
         {
            why = "sender " + I(s) + ": sent Message " + U(i) + " of " + U(sent.size()) + " (#" + I(sent[i].uid) + ", " + U(uniq[(size_t) sent[i].uid].flat.size()) + " bytes, " + U(uniq[(size_t) sent[i].uid].nfrag) + " packet(s)) "
                + ((j < got.size()) ? ("is missing or out of order: the next delivered Message is #" + I(got[j])) : std::string("was never delivered")) + " (" + U(got.size()) + " delivered in all)";
            return false;
         }
      }
      if (j < got.size()) {why = "sender " + I(s) + ": delivered Message " + U(j) + " (#" + I(got[j]) + ") is extra or out of order (" + U(sent.size()) + " sent, " + U(got.size()) + " delivered)"; return false;}
      return true;
   }
   bool AllSequencesMatch(std::string & why) const
   {
      for (int s=0; s<senders; s++) if (SequenceMatches(s, why) == false) return false;
      for (size_t i=0; i<crowdGot.size(); i++) if (crowdGot[i] != 1) {why = "crowd source " + U(i) + "'s one Message was delivered " + I(crowdGot[i]) + " times"; return false;}
      return true;
   }

   void DeliverAllInOrder() {while(!inflight.empty()) OpDeliver(0, true);}
   // what an event loop would do: DoOutput() only while the gateway says it has bytes to output
   void FlushSenders(bool evenIfIdle)
   {
      for (int s=0; s<senders; s++)
      {
         S[s].wblock = 0;
         for (int guard=0; guard<100000; guard++)
         {
            if ((!evenIfIdle)&&(S[s].gw()->HasBytesToOutput() == false)) break;
            if (OpOut(s, 0) <= 0) break;
         }
      }
   }
};

inline io_status_t SimPacketDataIO :: ReadFrom(void * b, uint32 n, IPAddressAndPort & src) {return _h->OnRead(b, n, src);}
inline io_status_t SimPacketDataIO :: WriteTo(const void * b, uint32 n, const IPAddressAndPort &) {return _h->OnWrite(_src, b, n);}

class PPReceiver : public AbstractGatewayMessageReceiver
{
public:
   std::vector<std::string> got;
protected:
   virtual void MessageReceivedFromGateway(const MessageRef & msg, void *) {if (msg()) {MessageRef c = GetMessageFromPool(*msg()); if (c()) {(void) c()->RemoveName(PR_NAME_PACKET_REMOTE_LOCATION); got.push_back(Flat(c));}}}
};
inline void ExecPP(const Plan & plan, RunResult & res)
{
   Cfg cfg(plan); TraceHash th; Stats & st = res.stats;
   const bool mini = (cfg.i("mini", 0) != 0), slave = (cfg.i("slave", 0) != 0);
   const uint32 mtu = EffMtu(mini, (uint32) std::min<long long>(std::max<long long>(cfg.i("mtu", 200), 0), 65536));
   const int zl = (int) std::min<long long>(std::max<long long>(cfg.i("zl", 0), 0), 9);
   SimStream a2b, b2a;
   auto MakeGw = [&]() -> AbstractMessageIOGatewayRef
   {
      AbstractMessageIOGatewayRef sl; if (slave) sl.SetRef(new MessageIOGateway());
      if (mini) {MiniPacketTunnelIOGateway * g = new MiniPacketTunnelIOGateway(sl, mtu); if (zl > 0) g->SetZLibCompressionLevel((uint8) zl); return AbstractMessageIOGatewayRef(g);}
      return AbstractMessageIOGatewayRef(new PacketTunnelIOGateway(sl, mtu));
   };
   AbstractMessageIOGatewayRef S = MakeGw(), R = MakeGw();
   S()->SetDataIO(DataIORef(new PacketizedProxyDataIO(DataIORef(new SimDataIO(&b2a, &a2b)), mtu)));
   R()->SetDataIO(DataIORef(new PacketizedProxyDataIO(DataIORef(new SimDataIO(&a2b, &b2a)), mtu)));
   PPReceiver rx; std::vector<std::string> sent; uint64_t tooBig = 0;
   auto CheckPrefix = [&](const char * when)
   {
      if (rx.got.size() > sent.size()) Fail("not_sent", std::string(when) + ": the receiver was handed " + U(rx.got.size()) + " Messages although only " + U(sent.size()) + " were sent (tunnel over PacketizedProxyDataIO)");
      for (size_t i=0; i<rx.got.size(); i++) if (rx.got[i] != sent[i]) Fail("not_sent", std::string(when) + ": delivered Message #" + U(i) + " (" + U(rx.got[i].size()) + " bytes) is not the " + U(i) + "th Message sent (" + U(sent[i].size()) + " bytes) (tunnel over PacketizedProxyDataIO)");
   };
   // (as ReflectServer does for every session: a DataIO that holds buffered output gets to flush it whenever its socket is writable)
   auto Out = [&](uint32 mx) {if (S()->GetDataIO()()->HasBufferedOutput()) {S()->GetDataIO()()->WriteBufferedOutput(); st.inc("p.packetizer_flushed_buffered_output");} const io_status_t r = S()->DoOutput(mx ? mx : MUSCLE_NO_LIMIT); th.u((uint64_t)(int64_t) r.GetByteCount()); if (r.IsError()) Fail("stream_tunnel_error", std::string("sender DoOutput over a reliable stream returned ") + r.GetStatus()());};
   auto In  = [&](uint32 mx) {const io_status_t r = R()->DoInput(rx, mx ? mx : MUSCLE_NO_LIMIT); th.u((uint64_t)(int64_t) r.GetByteCount()); if (r.IsError()) Fail("stream_tunnel_error", std::string("receiver DoInput over a reliable stream returned ") + r.GetStatus()()); CheckPrefix("after input");};
   size_t opIdx = 0;
   for (const std::string & line : plan)
   {
      opIdx++; if (line.compare(0, 4, "cfg ") == 0) continue;
      const std::vector<std::string> t = Split(line); if (t.empty()) continue;
      SetCurOp("C12/pp op %zu: %.200s", opIdx, line.c_str()); WatchdogArm(0); th.s(t[0]);
      if ((t[0] == "chunks")&&(t.size() >= 2)) {std::vector<uint32_t> v; for (size_t i=2; i<t.size(); i++) v.push_back((uint32_t) ToU(t[i])); a2b.SetSched(t[1] == "w", v);}
      else if ((t[0] == "msg")&&(t.size() >= 4))
      {
         const uint32 sz = (uint32) std::min<uint64_t>(ToU(t[3]), 40000);
         MessageRef m = Harness::BuildMsg(0, ToU(t[2]), RoundFlat(sz)); if (m() == NULL) continue;
         const uint32 fs = m()->FlattenedSize() + (slave ? kSlaveHdr : 0);
         if ((mini)&&((kMiniPktHdr+kMiniChunkHdr+fs) > mtu)) {tooBig++; continue;}   // beyond the mini tunnel's limit (it drops such a Message by design): not sent
         if (S()->AddOutgoingMessage(m).IsError()) Fail("harness", "AddOutgoingMessage failed");
         sent.push_back(Flat(m)); st.inc("msgs_sent");
      }
      else if ((t[0] == "out")&&(t.size() >= 3)) Out((uint32) ToU(t[2]));
      else if ((t[0] == "in")&&(t.size() >= 2))  In((uint32) ToU(t[1]));
   }
   // drain: under the plan's schedules first, then fault-free with a step bound
   SetCurOp("C12/pp drain"); WatchdogArm(0);
   for (int i=0; (i<4000)&&(rx.got.size() < sent.size()); i++) {Out(0); In(0);}
   const std::vector<uint32_t> whole(1, 0xffffffffu); a2b.SetSched(true, whole); a2b.SetSched(false, whole);
   uint64_t sentBytes = 0; for (auto & x : sent) sentBytes += x.size();
   const int bound = 64 + 8*(int) sent.size() + (int)(sentBytes/16); for (int i=0; (i<bound)&&(rx.got.size() < sent.size()); i++) {Out(0); In(0);}
   for (int i=0; i<3; i++) {Out(0); In(0);}
   WatchdogDisarm();
   if (rx.got.size() != sent.size()) Fail("perfect_mismatch", "tunnel over PacketizedProxyDataIO on a reliable, ordered byte stream: " + U(rx.got.size()) + " of " + U(sent.size()) + " Messages arrived (mini=" + I(mini) + " mtu=" + U(mtu) + " slave=" + I(slave) + ", " + U(a2b.q.size()) + " bytes still in the stream)");
   st.inc("runs_stream_packetizer"); st.inc("msgs_delivered", rx.got.size()); st.inc("f.short_read", a2b.shortReads); st.inc("f.short_write", a2b.shortWrites); st.inc("f.would_block", a2b.wouldBlocks); st.inc("p.mini_message_beyond_limit_not_sent", tooBig);
   for (auto & g : rx.got) th.s(g);
   res.hash = th.h; res.nontrivial = (!sent.empty())&&(a2b.totalRead > 0);
}

inline void Exec(const Plan & plan, RunResult & res)
{
   {Cfg c0(plan); if (c0.i("pp", 0)) {ExecPP(plan, res); return;}}
   Harness h(plan, res);
   size_t opIdx = 0;
   for (const std::string & line : plan)
   {
      opIdx++;
      if (line.compare(0, 4, "cfg ") == 0) continue;
      std::vector<std::string> t = Split(line); if (t.empty()) continue;
      SetCurOp("C12 op %zu: %.200s", opIdx, line.c_str());
      WatchdogArm(0);
      h.th.s(t[0]);
      if (g_verbose) fprintf(stderr, "[op %zu] %s   (in flight %zu, rx %zu)\n", opIdx, line.c_str(), h.inflight.size(), h.rx.size());
           if ((t[0] == "msg")&&(t.size() >= 4))     h.OpMsg((int) ToI(t[1]), ToU(t[2]), (uint32_t) ToU(t[3]));
      else if ((t[0] == "out")&&(t.size() >= 2))     (void) h.OpOut((int) ToI(t[1]), (t.size() >= 3) ? (uint32_t) ToU(t[2]) : 0);
      else if ((t[0] == "wblock")&&(t.size() >= 3))  h.OpWBlock((int) ToI(t[1]), (uint32_t) ToU(t[2]));
      else if ((t[0] == "deliver")&&(t.size() >= 2)) h.OpDeliver((size_t) ToU(t[1]), false);
      else if ((t[0] == "drop")&&(t.size() >= 2))    h.OpDrop((size_t) ToU(t[1]));
      else if ((t[0] == "dup")&&(t.size() >= 2))     h.OpDup((size_t) ToU(t[1]));
      else if (t[0] == "in")                         h.OpIn((t.size() >= 2) ? (uint32_t) ToU(t[1]) : 0);
      else if ((t[0] == "restart")&&(t.size() >= 2)) h.OpRestart((int) ToI(t[1]));
      else if ((t[0] == "crowd")&&(t.size() >= 2))   h.OpCrowd((uint32_t) ToU(t[1]));
      else if ((t[0] == "chk")&&(t.size() >= 2))     h.st.inc((h.inflight.size() == (size_t) ToU(t[1])) ? "gen_model_inflight_exact" : "gen_model_inflight_off");
   }

   // drain, stage A: like an event loop -- senders are flushed only while they report bytes to output
   SetCurOp("C12 drain");
   WatchdogArm(0);
   h.th.s("drain");
   for (int round=0; round<4; round++) {h.FlushSenders(false); h.DeliverAllInOrder(); h.OpIn(0);}
   const bool transportFaults = (h.drops + h.dups + h.reorders + h.restarts) > 0;
   const bool perfect = (!transportFaults)&&(h.wouldBlocks == 0);
   std::string why;
   bool okA = true;
   if (!transportFaults) okA = h.AllSequencesMatch(why);
   // stage B: DoOutput() even on gateways that report nothing to output (flushes a packet held back after a would-block)
   h.th.s("drainB");
   const uint64_t deliveredBefore = h.k[Harness::K_DELIVERED];
   for (int round=0; round<2; round++) {h.FlushSenders(true); h.DeliverAllInOrder(); h.OpIn(0);}
   if (h.k[Harness::K_DELIVERED] > deliveredBefore) h.st.inc("p.msgs_released_only_by_unsolicited_dooutput", h.k[Harness::K_DELIVERED] - deliveredBefore);
   if (!transportFaults)
   {
      std::string whyB;
      const bool okB = h.AllSequencesMatch(whyB);
      const std::string how = std::string(perfect ? "no fault fired in this run" : "only would-blocks fired in this run (every packet written was delivered once and in order)") + " [" + h.ConfigSummary() + "]";
      if ((!okB)&&(perfect)) h.Violate("perfect_mismatch", how + ", yet " + whyB);
      // (would-block + mini-tunnel compression is a finding of its own: a packet held back after its deflate did not pay keeps a header that says "not
      //  compressed"; when more chunks are appended and the deflate now pays, the receiver cannot parse the packet.  Its class names the configuration.)
      if ((!okB)&&(h.mini)&&(h.zl > 0)) h.Finding("wouldblock_mismatch_mini_zlib", how + ", yet " + whyB);
      else if (!okB) h.Violate("wouldblock_mismatch", how + ", yet " + whyB);
      else if (!okA) h.Finding("stuck_after_would_block", how + ", yet " + why + " until DoOutput() was called on a gateway whose HasBytesToOutput() was false: a packet held back after a would-block is not reported as pending output");
      for (int s=0; s<h.senders; s++)
      {
         const std::vector<SentRec> & sent = h.S[s].sentSeq;
         for (size_t i=0; i<sent.size(); i++)
         {
            const Unique & u = h.uniq[(size_t) sent[i].uid];
            if ((sent[i].slaveBig)&&(u.got[s] < u.sent[s]))
               h.Finding("big_msg_lost_with_slave", how + ", yet sender " + I(s) + "'s Message " + U(i) + " (#" + I(sent[i].uid) + ", " + U(u.flat.size()) + " bytes flattened, " + U(u.nfrag) + " packet(s)) was never delivered: with a slave gateway the receiver cuts every reassembled buffer down to "
                                                        + U((uint32_t) MUSCLE_MAX_PAYLOAD_BYTES_PER_UDP_ETHERNET_PACKET) + " bytes");
         }
      }
   }
   WatchdogDisarm();

   // statistics / non-triviality
   Stats & st = res.stats;
   h.FoldCounters();
   st.inc("msgs_sent", h.msgsSent);
   st.inc("packets", h.packets);
   st.inc("packets_delivered", h.delivered);
   st.inc("f.dgram_drop", h.drops);
   st.inc("f.dgram_dup", h.dups);
   st.inc("f.dgram_reorder", h.reorders);
   st.inc("f.would_block", h.wouldBlocks);
   st.inc("f.sender_restart", h.restarts);
   if (h.crowdPkts > 0) {st.inc("runs_with_crowd"); st.inc("p.crowd_packets", h.crowdPkts); if (h.crowdFlat.size() > 256) st.inc("p.crowd_beyond_receive_state_table");}
   st.inc(perfect ? "runs_perfect" : "runs_faulty");
   if ((!perfect)&&(!transportFaults)) st.inc("runs_wouldblock_only");
   if (h.restarts > 0) st.inc("runs_with_restart"); else if (!perfect) st.inc("runs_faulty_without_restart");
   st.inc(h.mini ? ((h.zl > 0) ? "gw.mini_zlib" : "gw.mini") : "gw.tunnel");
   if (h.slave) st.inc("runs_with_slave");
   if (h.senders > 1) st.inc("runs_multi_sender");
   if (h.rxsex != 0) st.inc("runs_with_source_exclusion");
   if (transportFaults) {uint64_t lost = 0; for (size_t u=0; u<h.uniq.size(); u++) for (int s=0; s<h.senders; s++) if (h.uniq[u].sent[s] > h.uniq[u].got[s]) lost += (uint64_t)(h.uniq[u].sent[s]-h.uniq[u].got[s]); st.inc("p.msgs_lost_to_faults", lost);}
   res.hash = h.th.h;
   res.nontrivial = (st.c["msgs_delivered"] >= 1);
   res.simMicros = g_simNowUs - g_simStartUs;
}

}} // namespace vs::c12
