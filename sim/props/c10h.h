// sim/props/c10h.h -- C10, second oracle: history independence of muscle's own pooled types (netsim/server).
// "An object obtained from a pool is in the same state as a freshly constructed one" is also a system-level statement about Message,
// DataNode, ByteBuffer, StringMatcher, field arrays ...: the same client history must produce byte-identical server output whether the
// process's object pools are empty or have been used by other histories before.  The check runs one index-heavy history with freshly
// flushed pools, then a few other histories WITHOUT flushing, then the first history again, and compares everything the clients received.
#pragma once
#include "c13.h"
namespace muscle {extern void MuscleVerifSimResetGlobalIDCounters();}

namespace vs { namespace c10h {

inline Plan Gen(uint64_t seed)
{
   Plan p = c13::Gen(seed);
   if (!p.empty()) p[0] += " prop2=C10H dirty=" + U(Mix(seed, 11) & 0xffffffffffffULL) + "," + U(Mix(seed, 12) & 0xffffffffffffULL) + "," + U(Mix(seed, 13) & 0xffffffffffffULL);
   return p;
}
inline std::vector<std::string> RunOnce(const Plan & plan, RunResult * optRes)
{
   SimClockReset(); SimRandomReset(4242); muscle::MuscleVerifSimResetGlobalIDCounters();
   RunResult scratch; RunResult & rr = optRes ? *optRes : scratch;
   srv::Interp in(plan, rr);
   in.sim.recordContent = true;     // no property oracle is active here: only the observable output matters
   in.Run();
   return in.sim.contentLog;
}
inline void Exec(const Plan & plan, RunResult & res)
{
   Cfg cfg(plan);
   const std::vector<std::string> fresh = RunOnce(plan, &res);       // the worker flushed every pool right before this run
   int k = 0;
   for (auto & ds : match::SplitOn(cfg.s("dirty", ""), ',')) if (!ds.empty()) {(void) RunOnce(c13::Gen(ToU(ds)), NULL); k++;}   // other histories, pools NOT flushed
   const std::vector<std::string> reused = RunOnce(plan, NULL);      // the same history again, on recycled objects
   res.stats.inc("histories_compared"); res.stats.inc("dirtying_histories", (uint64_t) k); res.stats.inc("messages_compared", fresh.size());
   const size_t n = std::min(fresh.size(), reused.size());
   for (size_t i=0; i<n; i++) if (fresh[i] != reused[i])
      Fail("pooled_object_not_fresh", "the same client history produced different server output on recycled objects: delivery #" + U(i) + " was [" + fresh[i].substr(0, 700) + "] with fresh pools but [" + reused[i].substr(0, 700) + "] after " + I(k) + " other histories had used the pools");
   if (fresh.size() != reused.size()) Fail("pooled_object_not_fresh", "the same client history produced " + U(fresh.size()) + " deliveries with fresh pools but " + U(reused.size()) + " on recycled objects");
   TraceHash th; for (auto & s : fresh) th.s(s);
   res.hash = th.h; res.nontrivial = (fresh.size() >= 3)&&(k >= 1);
}

}} // namespace vs::c10h
