// sim/props/c19.h -- C19: a thread pool handles each client's Messages once, in order, one at a time (thrsim)
#pragma once
#include "system/ThreadPool.h"
#include "message/Message.h"
#include "c18.h"
#include <sanitizer/allocator_interface.h>

namespace vs { namespace c19 {

using namespace muscle;

// Submitter programs (prog 1..n):  S<c>x<k> submit k Messages to client c | U<c> unregister client c (SetThreadPool(NULL)) | R<c> re-register | Y
// cfg early=1: the pool is shut down (destructor) as soon as every submitter program has finished, without unregistering first --
//              handlers may still be running and Messages pending; otherwise every client is unregistered first.
inline Plan Gen(uint64_t seed)
{
   Rng cfg(seed, "config"), wl(seed, "workload");
   Plan p;
   const int clients = 1 + (int) cfg.below(4), submitters = 1 + (int) cfg.below(3), maxThreads = 1 + (int) cfg.below(3);
   const int early = cfg.oneIn(3) ? 1 : 0;
   const std::string sched = thrc::SchedCfgStr(cfg);
   // lf=<k>: the k-th thread launch of the pool fails once (fault: failing thread creation, through the documented virtual ThreadPool::StartInternalThread()); -1 = never
   // latewait=1 (early shutdown only): one extra thread is blocked in UnregisterClient() while the pool is shut down underneath it (ThreadPool::Shutdown() wakes such waiters)
   const int lf = cfg.oneIn(6) ? (int) cfg.below(3) : -1;
   const int lateWait = ((early)&&(cfg.oneIn(2))) ? 1 : 0;
   // chain=1: handlers submit follow-up Messages for their own client from inside the handler; twopools=1: a second pool exists and M<c> moves client c straight from
   // the pool it is registered with to the other one (SetThreadPool(&other): unregister -- waiting for its handlers -- then register)
   const int chain = Rng(seed, "chain").oneIn(4) ? 1 : 0, twoPools = Rng(seed, "twopools").oneIn(4) ? 1 : 0;
   p.push_back("cfg prop=C19 chain=" + I(chain) + " twopools=" + I(twoPools) + " maxthreads=" + I(maxThreads) + " clients=" + I(clients) + " early=" + I(early) + " handleryields=" + I(cfg.below(3)) + " lf=" + I(lf) + " latewait=" + I(lateWait) + sched);
   for (int s=1; s<=submitters; s++)
   {
      std::string x = "prog " + I(s); const int n = 1 + (int) wl.below(6);
      for (int i=0; i<n; i++)
      {
         const uint32_t k = wl.below(20); const int c = (int) wl.below((uint32_t) clients);
         if ((twoPools)&&(k >= 17)&&(wl.oneIn(2))) {x += " M" + I(c); continue;}
         if (k < 12) x += " S" + I(c) + "x" + I(wl.oneIn(12) ? (9 + (int) wl.below(12)) : (1 + (int) wl.below(4))); else if (k < 15) x += " U" + I(c); else if (k < 17) x += " R" + I(c); else x += " Y";
      }
      p.push_back(x);
   }
   return p;
}

struct HEvent {int client; uint32 what; int poolThread; bool enter; uint64_t order;};
struct Shared
{
   std::vector<HEvent> log; uint64_t order = 0;
   int inHandler[8] = {0,0,0,0,0,0,0,0}; int concurrent = 0, maxConcurrent = 0;
   std::vector<uint32> accepted[8];                 // per client: what-codes accepted by SendMessageToThreadPool, in acceptance order (acceptance is scheduler-atomic with the call's return)
   std::vector<uint32> handled[8];                  // per client: what-codes whose handler has EXITED, in order
   bool registered[8]; bool unregisterReturned[8]; uint64_t unregisterReturnedAt[8];
   int handlerYields = 1; int maxThreads = 1; bool poolGone = false; bool chain = false; int numPools = 1; uint32 chainSeq[8] = {0,0,0,0,0,0,0,0};
   uint32 nextSeq[8][8];                            // [client][submitter]
   volatile int submittersRunning = 0;
   RunResult * res = NULL;
};
static Shared * g_sh = NULL;

class Client : public IThreadPoolClient
{
public:
   Client(ThreadPool * p, int idx) : IThreadPoolClient(p), _idx(idx) {}
   virtual void MessageReceivedFromThreadPool(const MessageRef & m, uint32)
   {
      Shared & sh = *g_sh; const int me = thr::Self();
      if (sh.poolGone) thr::ReportAndExit("handler_after_shutdown", "a handler of client " + I(_idx) + " started after the pool's shutdown had returned");
      if (!sh.registered[_idx]) thr::ReportAndExit("handler_after_unregister", "a handler of client " + I(_idx) + " started after its UnregisterClient had returned");
      if (sh.inHandler[_idx]++) thr::ReportAndExit("client_handled_concurrently", "two pool threads are inside the handler of client " + I(_idx) + " at the same time");
      if (++sh.concurrent > sh.maxConcurrent) sh.maxConcurrent = sh.concurrent;
      if (sh.concurrent > sh.maxThreads*sh.numPools) thr::ReportAndExit("thread_limit_exceeded", I(sh.concurrent) + " handlers run at once but the " + I(sh.numPools) + " pool(s) were created for " + I(sh.maxThreads) + " threads each");
      HEvent e = {_idx, m()->what, me, true, ++sh.order}; sh.log.push_back(e);
      for (int i=0; i<sh.handlerYields; i++) thr::Yield();
      if ((sh.chain)&&((m()->what % 5) == 0)&&((m()->what % 1000000) < 900000)&&(sh.chainSeq[_idx] < 6))
      {
         // a handler that hands its own client a follow-up (the usual way of chaining work): it is accepted behind everything accepted so far and handled like any other Message
         const uint32 w = (uint32)(_idx*1000000 + 900000) + sh.chainSeq[_idx]++;
         if (SendMessageToThreadPool(GetMessageFromPool(w)).IsOK()) {sh.accepted[_idx].push_back(w); sh.res->stats.inc("msgs_accepted"); sh.res->stats.inc("p.followup_submitted_from_inside_handler");}
      }
      sh.handled[_idx].push_back(m()->what);
      HEvent x = {_idx, m()->what, me, false, ++sh.order}; sh.log.push_back(x);
      sh.concurrent--; sh.inHandler[_idx]--;
      sh.res->stats.inc("msgs_handled");
   }
   int _idx;
};

// fault seam: the pool's documented launch hook; the k-th launch fails once
class FaultyPool : public ThreadPool
{
public:
   FaultyPool(uint32 maxThreads, int failAt) : ThreadPool(maxThreads), _failAt(failAt), _launches(0), _fired(false) {}
   int _failAt, _launches; bool _fired;
   uint32 ShutdownNow() {return ((::muscle::AbstractObjectRecycler *) this)->FlushCachedObjects();}   // = ThreadPool::Shutdown(), the call ~ThreadPool and the global flush make
protected:
   virtual status_t StartInternalThread(Thread & t)
   {
      if ((_failAt >= 0)&&(_launches++ == _failAt)) {_fired = true; g_sh->res->stats.inc("f.thread_launch_failure"); return B_ERROR("injected thread launch failure");}
      return ThreadPool::StartInternalThread(t);
   }
};

inline void WarmupStatics()
{
   // a pool's threads use messaging sockets; construct the statics they touch (single-threaded: nothing is submitted)
   ThreadPool pool(1); (void) pool.GetMaxThreadCount();
}

inline void Exec(const Plan & plan, RunResult & res)
{
   Cfg cfg(plan);
   std::map<int, std::vector<std::string> > progs = thrc::Programs(plan);
   if (progs.empty()) {res.hash = 1; return;}
   SetCurOp("C19 run"); WatchdogArm(0);
   if (getenv("VSIM_DEBUG_ADDR")) {void * p0 = malloc(64); fprintf(stderr, "ADDR0 malloc64=%p allocated=%zu\n", p0, __sanitizer_get_current_allocated_bytes()); free(p0);}
   Shared sh; g_sh = &sh; sh.res = &res; sh.handlerYields = (int) cfg.i("handleryields", 1); sh.maxThreads = (int) cfg.i("maxthreads", 1);
   memset(sh.nextSeq, 0, sizeof(sh.nextSeq));
   const int nclients = (int) std::min<long long>(8, std::max<long long>(1, cfg.i("clients", 1)));
   const bool early = (cfg.i("early", 0) != 0);
   thr::Begin(thrc::SchedCfgFrom(cfg));
   {
      std::vector<Client *> cls;
      {
         const int lf = (int) cfg.i("lf", -1); const bool lateWait = (early)&&(cfg.i("latewait", 0) != 0);
         FaultyPool pool((uint32) sh.maxThreads, lf);
         const bool twoPools = (cfg.i("twopools", 0) != 0)&&(lf < 0)&&(!early);   // (pool moves are exercised in orderly runs only)
         FaultyPool pool2((uint32) sh.maxThreads, -1);
         sh.chain = (cfg.i("chain", 0) != 0); sh.numPools = twoPools ? 2 : 1;
         for (int i=0; i<nclients; i++) {cls.push_back(new Client(&pool, i)); sh.registered[i] = true; sh.unregisterReturned[i] = false;}
         if (getenv("VSIM_DEBUG_ADDR")) {void * probe = malloc(64); fprintf(stderr, "ADDR pool=%p client0=%p malloc64=%p stack=%p pid=%d allocated=%zu\n", (void *) &pool, (void *) cls[0], probe, (void *) &probe, (int) getpid(), __sanitizer_get_current_allocated_bytes()); free(probe);}
         Mutex clientOpLock;   // register/unregister/submit on ONE client object are serialised by the caller (an IThreadPoolClient is not itself thread-safe); different clients proceed in parallel
         std::vector<Mutex *> perClient; for (int i=0; i<nclients; i++) perClient.push_back(new Mutex);
         int sub = 0;
         for (auto & kv : progs)
         {
            const int submitter = ++sub; const std::vector<std::string> ops = kv.second; sh.submittersRunning++;
            thr::Spawn([&, submitter, ops]() {
               for (auto & op : ops)
               {
                  if (op == "Y") {thr::Yield(); continue;}
                  if (op.size() < 2) continue;
                  const int c = (int)(ToU(op.substr(1)) % (uint64_t) nclients);
                  if (op[0] == 'S')
                  {
                     const size_t x = op.find('x'); const int k = (x == std::string::npos) ? 1 : (int) ToI(op.substr(x+1));
                     for (int i=0; i<k; i++)
                     {
                        DECLARE_MUTEXGUARD(*perClient[(size_t) c]);
                        const uint32 w = (uint32)(c*1000000 + (submitter % 8)*10000) + sh.nextSeq[c][submitter % 8]++;
                        const status_t r = cls[(size_t) c]->SendMessageToThreadPool(GetMessageFromPool(w));
                        if (r.IsOK()) {sh.accepted[c].push_back(w); res.stats.inc("msgs_accepted");}
                        else {if (sh.registered[c]) res.stats.inc("p.submit_refused_for_registered_client"); else res.stats.inc("p.submit_while_unregistered");}   // (a refused submission was never handed over: nothing is owed for it)
                     }
                  }
                  else if (op[0] == 'U')
                  {
                     // (after a failed thread launch a client's Messages stay pending until something else makes the pool dispatch again, so an unregister could
                     //  legitimately wait for that: in launch-failure runs clients are only unregistered at the end, after the harness has made the pool dispatch once more)
                     if (lf >= 0) {res.stats.inc("p.unregister_skipped_in_launch_failure_run"); continue;}
                     DECLARE_MUTEXGUARD(*perClient[(size_t) c]);
                     if (!sh.registered[c]) continue;
                     const std::vector<uint32> acceptedBefore = sh.accepted[c];
                     if (sh.handled[c].size() < acceptedBefore.size()) res.stats.inc("p.unregister_with_outstanding_messages");
                     cls[(size_t) c]->SetThreadPool(NULL);
                     // scheduler-atomic with the return: everything accepted before the call must have left its handler
                     if (sh.handled[c].size() < acceptedBefore.size()) thr::ReportAndExit("unregister_returned_early", "UnregisterClient of client " + I(c) + " returned while only " + U(sh.handled[c].size()) + " of its " + U(acceptedBefore.size()) + " accepted Messages had been handled");
                     if (sh.inHandler[c] != 0) thr::ReportAndExit("unregister_returned_early", "UnregisterClient of client " + I(c) + " returned while a pool thread was still inside its handler");
                     sh.registered[c] = false; res.stats.inc("unregisters");
                  }
                  else if (op[0] == 'M')
                  {
                     if (!twoPools) continue;
                     DECLARE_MUTEXGUARD(*perClient[(size_t) c]);
                     if (!sh.registered[c]) continue;
                     ThreadPool * cur = cls[(size_t) c]->GetThreadPool(); ThreadPool * other = (cur == &pool) ? (ThreadPool *) &pool2 : (ThreadPool *) &pool;
                     cls[(size_t) c]->SetThreadPool(other);   // leaves the old pool (waits for this client's handlers there) and joins the other one
                     sh.registered[c] = (cls[(size_t) c]->GetThreadPool() != NULL); res.stats.inc("p.client_moved_between_pools");
                  }
                  else if (op[0] == 'R')
                  {
                     DECLARE_MUTEXGUARD(*perClient[(size_t) c]);
                     if (sh.registered[c]) continue;
                     cls[(size_t) c]->SetThreadPool(&pool); sh.registered[c] = (cls[(size_t) c]->GetThreadPool() != NULL); res.stats.inc("p.reregister");
                  }
               }
               sh.submittersRunning--; });
         }
         thr::WaitUntil([&]() {return sh.submittersRunning == 0;});
         pool._failAt = -1;   // the fault is transient: no further launch fails
         Client * kick = NULL;
         if ((pool._fired)&&(!early))
         {
            // one more submission by a client with nothing outstanding makes the pool dispatch again; from here on everything accepted must get handled
            kick = new Client(&pool, 7); sh.registered[7] = true; sh.unregisterReturned[7] = false;
            const uint32 w = 7000000; if (kick->SendMessageToThreadPool(GetMessageFromPool(w)).IsOK()) {sh.accepted[7].push_back(w); res.stats.inc("msgs_accepted");}
            res.stats.inc("p.redispatch_after_launch_failure");
         }
         volatile bool lateDone = true;
         if (lateWait)
         {
            // a thread that is (or soon will be) blocked in UnregisterClient() while the pool is shut down underneath it: Shutdown() must wake it
            int victim = -1; for (int c=0; c<nclients; c++) if ((sh.registered[c])&&(victim < 0)) victim = c;
            if (victim >= 0)
            {
               lateDone = false; res.stats.inc("p.unregister_concurrent_with_shutdown");
               thr::Spawn([&, victim]() {
                  if (sh.handled[victim].size() < sh.accepted[victim].size()) res.stats.inc("p.unregister_blocked_across_shutdown_possible");
                  cls[(size_t) victim]->SetThreadPool(NULL);   // returns either because everything was handled or because the pool was shut down
                  sh.registered[victim] = false; lateDone = true; });
            }
         }
         if (!early)
         {
            if (kick) {kick->SetThreadPool(NULL); if ((sh.handled[7].size() < sh.accepted[7].size())||(sh.inHandler[7] != 0)) thr::ReportAndExit("unregister_returned_early", "UnregisterClient of the re-dispatch helper client returned with its Message unhandled"); sh.registered[7] = false;}
            for (int c=0; c<nclients; c++) if (sh.registered[c])
            {
               cls[(size_t) c]->SetThreadPool(NULL);
               if ((sh.handled[c].size() < sh.accepted[c].size())||(sh.inHandler[c] != 0)) thr::ReportAndExit("unregister_returned_early", "final UnregisterClient of client " + I(c) + " returned with " + U(sh.accepted[c].size() - sh.handled[c].size()) + " accepted Messages unhandled");
               sh.registered[c] = false;
            }
         }
         else {res.stats.inc("p.shutdown_with_registered_clients"); if (sh.concurrent > 0) res.stats.inc("p.shutdown_with_handlers_running"); size_t out = 0; for (int c=0; c<nclients; c++) out += sh.accepted[c].size() - sh.handled[c].size(); if (out > 0) res.stats.inc("p.shutdown_with_messages_outstanding");}
         if ((!lateWait)&&(!early))
         {
            // the way every pool is shut down when the process ends (AbstractObjectRecycler::GlobalFlushAllCachedObjects()): flush again and again until nothing is left to flush
            for (int round=0; ; round++) {const uint32 n = pool.ShutdownNow() + pool2.ShutdownNow(); if (n == 0) break; if (round >= 20) thr::ReportAndExit("shutdown_never_completes", "flushing the pool (= ThreadPool::Shutdown(), repeated until it reports nothing left, as the global flush at process exit does) still reports " + U(n) + " items after " + I(round+1) + " rounds");}
            res.stats.inc("p.shutdown_by_repeated_flush");
         }
         if (lateWait)
         {
            (void) pool.ShutdownNow();                        // what ~ThreadPool does first; the object itself must outlive the thread that is still inside UnregisterClient()
            thr::WaitUntil([&]() {return (bool) lateDone;});   // a waiter that Shutdown() failed to wake shows up here as a deadlock
         }
         for (auto m : perClient) delete m;
         delete kick;
      }  // ~ThreadPool: shutdown, joins its threads; must return (deadlock detector / step cap)
      sh.poolGone = true;
      for (int c=0; c<nclients; c++) if (sh.inHandler[c] != 0) thr::ReportAndExit("handler_running_after_shutdown", "the pool's shutdown returned while a handler of client " + I(c) + " was still running");
      for (auto c : cls) delete c;   // (the pool's shutdown cleared their back-pointers)
   }
   // per client: handled == accepted (exactly once, in acceptance order); with an early shutdown, handled must be a prefix of accepted
   for (int c=0; c<nclients; c++)
   {
      // Submissions by the submitter threads are serialised per client by the harness, so their acceptance order is known exactly; a follow-up sent from inside a handler
      // is not serialised against them (its place relative to a concurrent submission is the pool's choice), so the two kinds are compared as separate sequences.
      for (int kind=0; kind<2; kind++)
      {
         std::vector<uint32> a, h;
         for (uint32 w : sh.accepted[c]) if ((((w % 1000000) >= 900000) ? 1 : 0) == kind) a.push_back(w);
         for (uint32 w : sh.handled[c])  if ((((w % 1000000) >= 900000) ? 1 : 0) == kind) h.push_back(w);
         if (h.size() > a.size()) thr::ReportAndExit("message_handled_twice_or_invented", "client " + I(c) + ": " + U(h.size()) + " handler calls for " + U(a.size()) + " accepted " + (kind ? "follow-up " : "") + "Messages");
         for (size_t i=0; i<h.size(); i++) if (h[i] != a[i]) thr::ReportAndExit("handled_out_of_order", "client " + I(c) + ": " + (kind ? "follow-up " : "") + "handler call #" + U(i) + " got Message " + U(h[i]) + " but Message " + U(a[i]) + " was accepted at that position");
      }
      const std::vector<uint32> & a = sh.accepted[c], & h = sh.handled[c];
      if (h.size() > a.size()) thr::ReportAndExit("message_handled_twice_or_invented", "client " + I(c) + ": " + U(h.size()) + " handler calls for " + U(a.size()) + " accepted Messages");
      if ((!early)&&(h.size() != a.size())) thr::ReportAndExit("message_never_handled", "client " + I(c) + ": " + U(a.size()) + " Messages accepted, " + U(h.size()) + " handled, and the client was unregistered normally");
   }
   g_sh = NULL;
   thrc::FillSchedStats(res);
   thr::End();
   WatchdogDisarm();
   res.stats.max("max.concurrent_handlers", (uint64_t) sh.maxConcurrent);
   if (sh.maxConcurrent >= 2) res.stats.inc("p.parallel_handlers");
   size_t total = 0; for (int c=0; c<nclients; c++) total += sh.handled[c].size();
   res.nontrivial = (total >= 1)&&(thr::Stats().switches >= 2);
}

}} // namespace vs::c19
