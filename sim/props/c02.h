// sim/props/c02.h -- C02: parsing untrusted bytes is memory-safe, terminates and costs O(input), decided through the I/O paths:
// a real sending gateway produces a valid stream, a hostile transport (the fault model) rewrites it, a real receiving gateway
// consumes it under a seeded chunk schedule.  Sanitizers + watchdog + well-formedness + reusability + allocation bound are the oracle.
#pragma once
#include "wire_common.h"
#include "../netsim/wraps.h"
#include "iogateway/PacketTunnelIOGateway.h"
#include "iogateway/MiniPacketTunnelIOGateway.h"
#include "dataio/PacketDataIO.h"
#include <sanitizer/allocator_interface.h>

namespace vs { namespace c02 {

using namespace muscle;

enum {T_BIN = 0, T_TMPL, T_TEXT, T_RAW, T_SLIP, T_WS, T_MINI, T_MICRO, T_TUNNEL, T_MINITUNNEL, T_UDP, T_UDPTEXT, NUM_T};   // T_UDPTEXT: the plain-text gateway in packet mode (lines per datagram)     // T_UDP: the plain MessageIOGateway in packet mode (one Message per datagram)
static const char * kTNames[NUM_T] = {"bin", "tmpl", "text", "raw", "slip", "ws", "mini", "micro", "tunnel", "minitunnel", "udp", "udptext"};
inline int TFromName(const std::string & s) {for (int i=0; i<NUM_T; i++) if (s == kTNames[i]) return i; return -1;}

// ---------------------------------------------------------------- allocation metering (bytes requested from malloc/new)
static volatile uint64_t g_allocBytes = 0;
static void OnMalloc(const volatile void *, size_t n) {g_allocBytes += n;}
static void OnFree(const volatile void *) {}
inline void InstallAllocMeter() {static bool done = false; if (!done) {done = true; (void) __sanitizer_install_malloc_and_free_hooks(OnMalloc, OnFree);}}

struct AllocCheck   // filled in by the metering gateway shims; evaluated by the harness after each call (never throw through parser frames)
{
   uint64_t worstAlloc = 0, worstFrame = 0; bool exceeded = false; uint64_t framesMetered = 0;
   void Note(uint64_t frameBytes, uint64_t allocBytes)
   {
      framesMetered++;
      // deliberately loose: 256x + 1MiB (worst legitimate expansion found is ~40x; a declared-count blow-up is >= 10^5 x)
      if (allocBytes > 256*frameBytes + (1u<<20)) {if ((!exceeded)||(allocBytes > worstAlloc)) {worstAlloc = allocBytes; worstFrame = frameBytes;} exceeded = true;}
   }
};
static AllocCheck * g_allocCheck = NULL;

template<class Base> class MeteredExactFrame : public Base
{
public:
   MeteredExactFrame() {}
   template<class A> explicit MeteredExactFrame(A a) : Base(a) {}
   virtual MessageRef UnflattenHeaderAndMessage(const ConstByteBufferRef & bufRef) const
   {
      if (bufRef() == NULL) return Base::UnflattenHeaderAndMessage(bufRef);
      ByteBufferRef copy = GetByteBufferFromPool(bufRef()->GetNumBytes(), bufRef()->GetBuffer());   // exact-size copy: over-reads hit a red zone
      const uint32 n = bufRef()->GetNumBytes();
      uint32 enc = 0; if (n >= 8) enc = DefaultEndianConverter::Import<uint32>(bufRef()->GetBuffer()+4) & 0x7fffffffu;
      const uint64_t before = g_allocBytes;
      MessageRef ret = Base::UnflattenHeaderAndMessage(copy);
      if ((g_allocCheck)&&(enc == (uint32) MUSCLE_MESSAGE_ENCODING_DEFAULT)) g_allocCheck->Note(n, g_allocBytes-before);   // zlib frames: N would have to be the inflated size
      return ret;
   }
};

// ---------------------------------------------------------------- a trivial in-memory datagram endpoint
class QueuePacketDataIO : public PacketDataIO
{
public:
   explicit QueuePacketDataIO(uint32 mtu) : _mtu(mtu), _src(IPAddress(0x7f000001), 5000) {}
   virtual uint32 GetMaximumPacketSize() const {return _mtu;}
   virtual const IPAddressAndPort & GetPacketSendDestination() const {return _dst;}
   virtual void SetPacketSendDestination(const IPAddressAndPort & d) {_dst = d;}
   virtual io_status_t ReadFrom(void * b, uint32 n, IPAddressAndPort & src)
   {
      if (_rx.empty()) return io_status_t(0);
      const std::string p = _rx.front(); _rx.pop_front();
      const uint32 k = muscleMin(n, (uint32) p.size()); memcpy(b, p.data(), k); src = _src; SetSourceOfLastReadPacket(src); return io_status_t((int32) k);
   }
   virtual io_status_t WriteTo(const void * b, uint32 n, const IPAddressAndPort &) {_tx.push_back(std::string((const char *) b, n)); return io_status_t((int32) n);}
   virtual void FlushOutput() {}
   virtual void Shutdown() {}
   virtual const ConstSocketRef & GetReadSelectSocket() const {return GetNullSocket();}
   virtual const ConstSocketRef & GetWriteSelectSocket() const {return GetNullSocket();}
   std::deque<std::string> _rx; std::vector<std::string> _tx; uint32 _mtu; IPAddressAndPort _dst, _src;
};

// ----------------------------------------------------------------------------------------------- plan generation
// cfg gw=<type> enc= lru= minchunk= mtu= zl= maxin=<bytes or 0> slave=0/1
// chunks rr ...          receiver read schedule
// msg <gseed> <class> | text <gseed> <n> | raw <gseed> <n>          the valid traffic
// mut word <k> <sel> | mut be16 <k> <sel> | mut flip <off> <bit> | mut byte <off> <val> | mut trunc <off> | mut ins <off> <n> <gseed> | mut splice <from> <to> <n> | mut dup <from> <n>
// in <max>               maxBytes cycle for the receiver's DoInput calls
inline Plan Gen(uint64_t seed)
{
   Rng cfg(seed, "config"), wl(seed, "workload"), fl(seed, "faults");
   Plan p;
   static const int weights[NUM_T] = {34, 16, 5, 4, 5, 8, 10, 0, 9, 9, 6, 3};
   int tot = 0; for (int w : weights) tot += w;
   int pk = (int) cfg.below((uint32_t) tot), t = 0; while(pk >= weights[t]) {pk -= weights[t]; t++;}
   if (cfg.oneIn(300)) t = T_MICRO;   // the micro codec's read API is not bounds-checked at all (recorded finding F27: nearly every rewritten stream crashes it), so it is sampled rarely
   const int enc = ((t == T_BIN)||(t == T_TMPL)||(t == T_WS)) ? (cfg.pct(70) ? 0 : (int) cfg.below(10)) : 0;
   static const uint32_t lrus[] = {100, 1000, 100000, 1024*1024};
   static const uint32_t mtus[] = {25, 40, 64, 100, 300, 576, 1500, 9000};
   uint32_t mtu = mtus[cfg.below(8)]; if ((t == T_MINITUNNEL)&&(mtu < 64)) mtu = 200;
   if ((t == T_UDP)||(t == T_UDPTEXT)) {static const uint32_t um[] = {1500, 2047, 2048, 2049, 4096, 8192, 9000, 65000}; mtu = um[cfg.below(8)];}   // around and beyond the gateway's 2048-byte scratch buffer
   const uint32_t maxin = cfg.oneIn(8) ? 0 : (16u<<20);
   p.push_back("cfg prop=C02 gw=" + std::string(kTNames[t]) + " enc=" + I(enc) + " lru=" + U(lrus[cfg.below(4)]) + " minchunk=" + U(cfg.oneIn(2) ? 0 : (1 + cfg.below(20)))
               + " mtu=" + U(mtu) + " zl=" + I(cfg.oneIn(2) ? 0 : (1 + cfg.below(9))) + " maxin=" + U(maxin) + " slave=" + I(cfg.oneIn(3) ? 0 : 1)
               + " reuse=" + I(((t == T_WS)&&(!cfg.oneIn(40))) ? 0 : 1)
               + ((t == T_WS) ? (" wsc=" + I(cfg.oneIn(3) ? 1 : 0)) : std::string()));   // wsc=1: the hostile bytes are what a SERVER sent and the receiver is the CLIENT-role gateway (handshake response check, unmasked frames)   // WebSocket gateways have no Reset() override (known finding F22): sampled rarely so it cannot mask the rest
   p.push_back("chunks rr " + SchedToStr(GenChunkSchedule(fl, cfg.oneIn(3) ? 0 : -1)));

   const int numMsgs = 1 + (int) wl.below(6);
   for (int i=0; i<numMsgs; i++)
   {
      const uint64_t gs = wl.u64() & 0xffffffffffffULL;
      if ((t == T_TEXT)||(t == T_UDPTEXT)) p.push_back("text " + U(gs) + " " + I(1 + wl.below(4)));
      else if ((t == T_RAW)||(t == T_SLIP)) p.push_back("raw " + U(gs) + " " + I(1 + wl.below(3)));
      else
      {
         int cls;
         if ((t == T_MINI)||(t == T_MICRO)) cls = MSGCLS_COMMON;
         else if (t == T_UDP) {static const int uc[] = {MSGCLS_EDGE, MSGCLS_EDGE, MSGCLS_SMALL, MSGCLS_TINY, MSGCLS_LARGE}; cls = uc[wl.below(5)];}
         else if (t == T_TMPL) cls = wl.pct(60) ? MSGCLS_SHAPED : (int) wl.below(MSGCLS_COMMON);
         else {static const int c[] = {MSGCLS_TINY, MSGCLS_SMALL, MSGCLS_SMALL, MSGCLS_EDGE, MSGCLS_NESTED, MSGCLS_SHAPED, MSGCLS_SMALL, MSGCLS_LARGE}; cls = c[wl.below(wl.oneIn(6) ? 8 : 7)]; if (wl.oneIn(12)) cls = MSGCLS_MANYFIELDS;}
         std::string shp; if ((t == T_TMPL)&&(cls == MSGCLS_SHAPED)&&(wl.pct(70))) shp = " " + I((int)((seed >> 7) % 10) + (wl.oneIn(4) ? 1 : 0));   // templating runs keep coming back to one or two shapes: payload-only frames need a cached template
         p.push_back("msg " + U(gs) + " " + I(cls) + shp);
      }
   }
   const int numMut = cfg.oneIn(12) ? 0 : (1 + (int) fl.below(3));   // a few runs are unmutated (must then deliver everything)
   for (int i=0; i<numMut; i++)
   {
      const uint32_t r = fl.below(100);
      if (((t == T_UDP)||(t == T_UDPTEXT))&&(Rng(seed, "fill").oneIn(3))&&(i == 0)) {p.push_back("mut fill " + U(fl.below(8)) + " " + U(mtu)); continue;}   // one datagram is made exactly MTU bytes long
      if ((t == T_WS)&&(r < 25)) {p.push_back("mut wsclose " + U(fl.below(64)) + " " + U(fl.below(4))); continue;}
           if ((r < 40)&&((t == T_BIN)||(t == T_MINI)||(t == T_MICRO))&&(enc == 0)&&(r >= 12)) p.push_back(fl.oneIn(3) ? ("mut swordt " + U(fl.below(8)) + " " + U(fl.below(10))) : ("mut sword " + U(fl.below(100000)) + " " + U(fl.below(20))));
      else if (((r < 12)||((t == T_TMPL)&&(r < 32)))&&((t == T_BIN)||(t == T_TMPL)||(t == T_MINI))) /* templated frames have no walker of their own: consistent frame truncation is the structural rewrite for them */ p.push_back(std::string(fl.oneIn(2) ? "mut fhdr " : "mut ftail ") + U(fl.below(64)) + " " + U(fl.below(1000)));
      else if (r < 45) p.push_back("mut word " + U(fl.below(100000)) + " " + U(fl.below(20)));
      else if (r < 50) p.push_back("mut be16 " + U(fl.below(100000)) + " " + U(fl.below(16)));
      else if (r < 65) p.push_back("mut flip " + U(fl.below(1000000)) + " " + U(fl.below(8)));
      else if (r < 72) p.push_back("mut byte " + U(fl.below(1000000)) + " " + U(fl.below(256)));
      else if (r < 84) p.push_back("mut trunc " + U(fl.below(1000000)));
      else if (r < 90) p.push_back("mut ins " + U(fl.below(1000000)) + " " + U(1 + fl.below(40)) + " " + U(fl.u32()));
      else if (r < 96) p.push_back("mut splice " + U(fl.below(1000000)) + " " + U(fl.below(1000000)) + " " + U(1 + fl.below(64)));
      else if ((t == T_WS)&&(fl.oneIn(2))) p.push_back("mut wsclose " + U(fl.below(64)) + " " + U(fl.below(4)));
      else             p.push_back("mut dup " + U(fl.below(1000000)) + " " + U(1 + fl.below(200)));
   }
   const int numIn = 1 + (int) wl.below(3);
   for (int i=0; i<numIn; i++) p.push_back("in " + U(wl.oneIn(2) ? 0 : (1 + wl.below(wl.oneIn(2) ? 16 : 5000))));
   return p;
}

// ----------------------------------------------------------------------------------------------- execution
struct Built   // the valid traffic: a byte stream, or a list of datagrams
{
   std::string stream; std::vector<std::string> packets; std::vector<std::string> units;   // units = what a faithful receiver must deliver (C03-style)
};

inline void UnitsOf(int t, const MessageRef & m, std::vector<std::string> & out)
{
   if ((t == T_TEXT)||(t == T_UDPTEXT)) {const String * s; for (int i=0; m()->FindString(PR_NAME_TEXT_LINE, i, &s).IsOK(); i++) out.push_back(std::string(s->Cstr(), s->Length()));}
   else if ((t == T_RAW)||(t == T_SLIP))
   {
      const void * d; uint32 nb;
      for (int i=0; m()->FindData(PR_NAME_DATA_CHUNKS, B_ANY_TYPE, i, &d, &nb).IsOK(); i++)
      {
         if (t == T_RAW) {if (out.empty()) out.push_back(""); out[0].append((const char *) d, nb);}
         else if (nb > 0) out.push_back(std::string((const char *) d, nb));
      }
   }
   else if (((t == T_TUNNEL)||(t == T_MINITUNNEL)||(t == T_UDP))&&(m()->HasName(PR_NAME_PACKET_REMOTE_LOCATION)))
   {
      Message copy(*m()); (void) copy.RemoveName(PR_NAME_PACKET_REMOTE_LOCATION);   // the receiving tunnel tags each Message with the packet's source address, by design
      out.push_back(Flat(copy));
   }
   else out.push_back(Flat(m));
}

static AbstractMessageIOGatewayRef MakeSender(int t, const Cfg & cfg)
{
   const int enc = MUSCLE_MESSAGE_ENCODING_DEFAULT + (int) cfg.i("enc", 0);
   const uint32 mtu = (uint32) cfg.i("mtu", 1500);
   AbstractMessageIOGatewayRef slave; if (cfg.i("slave", 1)) slave.SetRef(new MessageIOGateway());
   switch(t)
   {
      case T_TMPL: return AbstractMessageIOGatewayRef(new TemplatingMessageIOGateway((uint32) cfg.i("lru", 100000), enc));
      case T_TEXT: case T_UDPTEXT: return AbstractMessageIOGatewayRef(new PlainTextMessageIOGateway);
      case T_RAW:  return AbstractMessageIOGatewayRef(new RawDataMessageIOGateway);
      case T_SLIP: return AbstractMessageIOGatewayRef(new SLIPFramedDataMessageIOGateway);
      case T_WS:   {WebSocketMessageIOGateway * c = cfg.i("wsc", 0) ? new WebSocketMessageIOGateway : new WebSocketMessageIOGateway("/", "localhost", "muscle", "origin"); c->SetSlaveGateway(AbstractMessageIOGatewayRef(new MessageIOGateway(enc))); return AbstractMessageIOGatewayRef(c);}
      case T_TUNNEL: return AbstractMessageIOGatewayRef(new PacketTunnelIOGateway(slave, mtu));
      case T_MINITUNNEL: {MiniPacketTunnelIOGateway * g = new MiniPacketTunnelIOGateway(slave, mtu); if (cfg.i("zl", 0) > 0) g->SetZLibCompressionLevel((uint8) cfg.i("zl", 0)); return AbstractMessageIOGatewayRef(g);}
      default:     return AbstractMessageIOGatewayRef(new MessageIOGateway(enc));
   }
}
static AbstractMessageIOGatewayRef MakeReceiver(int t, const Cfg & cfg)
{
   const uint32 mtu = (uint32) cfg.i("mtu", 1500);
   const uint32 maxin = (uint32) cfg.i("maxin", 0);
   AbstractMessageIOGatewayRef slave; if (cfg.i("slave", 1)) {MessageIOGateway * sg = new MeteredExactFrame<MessageIOGateway>(); if (maxin) sg->SetMaxIncomingMessageSize(maxin); slave.SetRef(sg);}
   switch(t)
   {
      case T_TMPL: {TemplatingMessageIOGateway * g = new MeteredExactFrame<TemplatingMessageIOGateway>((uint32) cfg.i("lru", 100000)); if (maxin) g->SetMaxIncomingMessageSize(maxin); return AbstractMessageIOGatewayRef(g);}
      case T_UDPTEXT: return AbstractMessageIOGatewayRef(new PlainTextMessageIOGateway);
      case T_TEXT: return (cfg.i("lru", 0) % 3 == 0) ? AbstractMessageIOGatewayRef(new TelnetPlainTextMessageIOGateway) : AbstractMessageIOGatewayRef(new PlainTextMessageIOGateway);   // (every third text run: the telnet variant, whose IAC state machine sees the rewritten bytes)
      case T_RAW:  return AbstractMessageIOGatewayRef(new RawDataMessageIOGateway((uint32) cfg.i("minchunk", 0)));
      case T_SLIP: return AbstractMessageIOGatewayRef(new SLIPFramedDataMessageIOGateway);
      case T_WS:   {if (cfg.i("wsc", 0)) SimRandomReset(777);   // the client's handshake key comes from the PRNG seam: same key as the client of the valid exchange
                    WebSocketMessageIOGateway * s = cfg.i("wsc", 0) ? new WebSocketMessageIOGateway("/", "localhost", "muscle", "origin") : new WebSocketMessageIOGateway; MessageIOGateway * sg = new MeteredExactFrame<MessageIOGateway>(); if (maxin) sg->SetMaxIncomingMessageSize(maxin); s->SetSlaveGateway(AbstractMessageIOGatewayRef(sg)); return AbstractMessageIOGatewayRef(s);}
      case T_TUNNEL: return AbstractMessageIOGatewayRef(new PacketTunnelIOGateway(slave, mtu));
      case T_MINITUNNEL: return AbstractMessageIOGatewayRef(new MiniPacketTunnelIOGateway(slave, mtu));
      default:     {MessageIOGateway * g = new MeteredExactFrame<MessageIOGateway>(); if (maxin) g->SetMaxIncomingMessageSize(maxin); return AbstractMessageIOGatewayRef(g);}
   }
}

// Produces the valid traffic with real sender code (whole-buffer, fault-free transport).
inline void BuildValid(int t, const Cfg & cfg, const std::vector<MessageRef> & msgs, Built & b)
{
   if ((t != T_TUNNEL)&&(t != T_MINITUNNEL)&&(t != T_UDP)&&(t != T_UDPTEXT)) for (auto & m : msgs) UnitsOf(t, m, b.units);
   if ((t == T_TUNNEL)||(t == T_MINITUNNEL)||(t == T_UDP)||(t == T_UDPTEXT))
   {
      if (t == T_UDPTEXT)
      {
         // Hand-made datagrams (one per Message: its lines, each followed by CRLF).  The real sender cannot be used: PlainTextMessageIOGateway's packet-mode OUTPUT path sizes
         // its buffer one byte too long for what it writes, and the DataFlattener's complete-write assertion then calls MCRASH on every outgoing Message in a build with
         // assertions on (observed here; a defect of the sending side, which none of the 20 properties covers -- see DESIGN 10.4).
         for (auto & m : msgs) {std::string d; const String * ln; for (int i=0; m()->FindString(PR_NAME_TEXT_LINE, i, &ln).IsOK(); i++) {d.append(ln->Cstr(), ln->Length()); d += "\r\n";} if (d.size() > (size_t) cfg.i("mtu", 1500)) d.resize((size_t) cfg.i("mtu", 1500)); if (!d.empty()) b.packets.push_back(d);}
      }
      else
      {
      AbstractMessageIOGatewayRef S = MakeSender(t, cfg);
      QueuePacketDataIO * io = new QueuePacketDataIO((uint32) cfg.i("mtu", 1500)); S()->SetDataIO(DataIORef(io));
      for (auto & m : msgs) (void) S()->AddOutgoingMessage(m);
      for (int i=0; (i<10000)&&(S()->HasBytesToOutput()); i++) if (S()->DoOutput().GetByteCount() <= 0) break;
      b.packets = io->_tx;
      }
      // expected deliveries = what a clean receiver gets from these packets (the mini tunnel drops Messages that do not fit its MTU; delivery itself is C12's subject)
      AbstractMessageIOGatewayRef R = MakeReceiver(t, cfg);
      QueuePacketDataIO * rio = new QueuePacketDataIO((uint32) cfg.i("mtu", 1500)); rio->_rx.assign(b.packets.begin(), b.packets.end()); R()->SetDataIO(DataIORef(rio));
      QueueGatewayMessageReceiver rq;
      for (size_t i=0; (i<b.packets.size()+4)&&(!rio->_rx.empty()); i++) (void) R()->DoInput(rq);
      MessageRef m; while(rq.GetMessages().RemoveHead(m).IsOK()) UnitsOf(t, m, b.units);
      return;
   }
   if (t == T_WS)
   {
      // a clean client<->server exchange; what the client wrote (handshake request + frames) is the valid stream
      SimStream a2b, b2a; std::string rec;
      if (cfg.i("wsc", 0))
      {
         // client role under test: the valid stream is what the SERVER wrote (handshake response + unmasked frames) to a client that sent its request
         AbstractMessageIOGatewayRef C = MakeReceiver(t, cfg), V = MakeSender(t, cfg);   // C = client (same PRNG key as the later receiver), V = server
         C()->SetDataIO(DataIORef(new SimDataIO(&b2a, &a2b))); V()->SetDataIO(DataIORef(new SimDataIO(&a2b, &b2a)));
         QueueGatewayMessageReceiver vq;
         for (auto & m : msgs) (void) V()->AddOutgoingMessage(m);
         for (int i=0; i<64; i++)
         {
            (void) C()->DoOutput(); (void) V()->DoInput(vq); (void) V()->DoOutput();   // the client never reads here: b2a accumulates everything the server says
            if ((i > 2)&&(V()->HasBytesToOutput() == false)&&(a2b.q.empty())) break;
         }
         b.stream.assign(b2a.q.begin(), b2a.q.end());
         return;
      }
      AbstractMessageIOGatewayRef S = MakeSender(t, cfg), R = MakeReceiver(t, cfg);
      S()->SetDataIO(DataIORef(new SimDataIO(&b2a, &a2b))); R()->SetDataIO(DataIORef(new SimDataIO(&a2b, &b2a)));
      QueueGatewayMessageReceiver rq, sq;
      for (auto & m : msgs) (void) S()->AddOutgoingMessage(m);
      for (int i=0; i<64; i++)
      {
         (void) S()->DoOutput(); rec.append(a2b.q.begin(), a2b.q.end());   // capture before the server consumes
         (void) R()->DoInput(rq); (void) R()->DoOutput(); (void) S()->DoInput(sq);
         if ((S()->HasBytesToOutput() == false)&&(S()->GetOutgoingMessageQueue().IsEmpty())&&(a2b.q.empty())&&(b2a.q.empty())) break;
      }
      b.stream = rec;
      return;
   }
   SimStream a2b, dummy;
   AbstractMessageIOGatewayRef S = MakeSender(t, cfg);
   S()->SetDataIO(DataIORef(new SimDataIO(&dummy, &a2b)));
   for (auto & m : msgs) (void) S()->AddOutgoingMessage(m);
   for (int i=0; (i<100000)&&(S()->HasBytesToOutput()); i++) if (S()->DoOutput().GetByteCount() <= 0) break;
   b.stream.assign(a2b.q.begin(), a2b.q.end());
}

// boundary value for a corrupted length/count/type word whose original value is v in a buffer of len bytes
inline uint32_t BoundaryValue(uint32_t sel, uint32_t v, uint32_t len)
{
   switch(sel % 20)
   {
      case 0: return 0;            case 1: return 1;             case 2: return v-1;          case 3: return v+1;
      case 4: return len-1;        case 5: return len;           case 6: return len+1;        case 7: return 0x7fffffffu;
      case 8: return 0x80000000u;  case 9: return 0xfffffff8u;   case 10: return 0xfffffffcu; case 11: return 0xffffffffu;
      case 12: return v*2;         case 13: return 0x00400000u;  case 14: return 0x00010000u; case 15: return v ^ 0x80000000u;
      case 16: return v/2;         case 17: return v-4;          case 18: return v-8;         default: return v+4;
   }
}
// every offset whose little-endian 32-bit value could be a length, count, size or type word (value <= len+16, or a printable 4-char code)
inline void CandidateWords(const std::string & s, std::vector<uint32_t> & offs)
{
   const uint32_t len = (uint32_t) s.size();
   for (uint32_t o=0; o+4<=len; o++)
   {
      uint32_t v; memcpy(&v, s.data()+o, 4);
      bool printable = true; for (int k=0; k<4; k++) {const unsigned char c = (unsigned char) s[o+k]; if ((c < 0x20)||(c > 0x7e)) printable = false;}
      if ((v <= len+16)||(printable)||((v & 0x7fffffffu) <= len+16)) offs.push_back(o);
   }
}
// Independent walker of the documented flattened-Message layout inside default-encoded stream frames:
//   frame   = [uint32 bodyLength][uint32 encoding][body]
//   Message = [uint32 protocol][uint32 what][uint32 numFields] then per field [uint32 nameLength][name][uint32 typeCode][uint32 dataLength][data]
//   data    = fixed-size items back to back | variable-size: [uint32 numItems] then per item [uint32 itemLength][item] | B_MESSAGE_TYPE: per item [uint32 itemLength][Message]
// It returns the offset of every length / count / type / version word ("structural words"), recursively, and is defensive (it also runs on already rewritten streams).
inline void WalkMessageWords(const std::string & s, uint32_t beg, uint32_t end, std::vector<uint32_t> & out, int depth)
{
   if ((depth > 12)||(end > s.size())||(beg+12 > end)) return;
   auto rd = [&](uint32_t o) {uint32_t v; memcpy(&v, s.data()+o, 4); return v;};
   out.push_back(beg); out.push_back(beg+8);   // protocol version, field count   (the what-code is not structural)
   const uint32_t nf = rd(beg+8); uint32_t o = beg+12;
   for (uint32_t f=0; (f<nf)&&(f<4096); f++)
   {
      if (o+4 > end) return;
      const uint32_t nl = rd(o); out.push_back(o); if ((uint64_t) o+4+nl+8 > end) return;
      o += 4+nl; const uint32_t tc = rd(o), dl = rd(o+4); out.push_back(o); out.push_back(o+4); o += 8;
      if ((uint64_t) o+dl > end) return;
      const uint32_t dend = o+dl;
      switch(tc)
      {
         case 0x424f4f4c: case 0x42595445: case 0x53485254: case 0x4c4f4e47: case 0x4c4c4e47: case 0x464c4f54: case 0x44424c45: case 0x42505454: case 0x52454354: case 0x504e5452: break;   // BOOL BYTE SHRT LONG LLNG FLOT DBLE BPNT RECT PNTR: fixed-size items
         case 0x4d534747:   // 'MSGG': [len][Message]*
            {uint32_t q = o; for (int i=0; (i<4096)&&(q+4 <= dend); i++) {const uint32_t il = rd(q); out.push_back(q); if ((uint64_t) q+4+il > dend) break; WalkMessageWords(s, q+4, q+4+il, out, depth+1); q += 4+il;}}
         break;
         default:           // variable-size items: [count] then [len][item]*
            if (o+4 <= dend) {out.push_back(o); uint32_t q = o+4; const uint32_t ni = rd(o); for (uint32_t i=0; (i<ni)&&(i<4096)&&(q+4 <= dend); i++) {const uint32_t il = rd(q); out.push_back(q); if ((uint64_t) q+4+il > dend) break; q += 4+il;}}
         break;
      }
      o = dend;
   }
}
inline void StructuralWords(const std::string & s, std::vector<uint32_t> & out)
{
   const uint32_t len = (uint32_t) s.size(); uint32_t o = 0;
   while(o+8 <= len)
   {
      uint32_t bl, enc; memcpy(&bl, s.data()+o, 4); memcpy(&enc, s.data()+o+4, 4);
      if ((uint64_t) o+8+bl > len) break;
      out.push_back(o); out.push_back(o+4);
      if (enc == 1164862256u) WalkMessageWords(s, o+8, o+8+bl, out, 0);   // 'Enc0'
      o += 8+bl;
   }
}
inline void Mutate(std::string & s, const std::vector<std::string> & t, Stats & st)
{
   if ((t.size() < 3)||(s.empty())) return;
   const uint32_t len = (uint32_t) s.size();
   const std::string & k = t[1];
   if ((k == "fill")&&(t.size() >= 4))
   {
      // a datagram that fills the transport's MTU exactly (padded with printable bytes, or cut)
      const size_t n = (size_t) std::min<uint64_t>(ToU(t[3]), 1u<<17); const size_t old = s.size();
      s.resize(n); for (size_t i=old; i<n; i++) s[i] = (char)('a' + (i % 23));
      st.inc("mut.datagram_fills_mtu");
      return;
   }
   if ((k == "word")&&(t.size() >= 4))
   {
      std::vector<uint32_t> offs; CandidateWords(s, offs); if (offs.empty()) return;
      const uint32_t o = offs[ToU(t[2]) % offs.size()]; uint32_t v; memcpy(&v, s.data()+o, 4);
      const uint32_t nv = BoundaryValue((uint32_t) ToU(t[3]), v, len); memcpy(&s[o], &nv, 4); st.inc("f.corrupt_boundary");
   }
   else if (((k == "sword")||(k == "swordt"))&&(t.size() >= 4))
   {
      // one structural word (found by the layout walker) gets a boundary value: the property's "every single-field corruption ... in each length/count/type word"
      std::vector<uint32_t> offs; StructuralWords(s, offs); if (offs.empty()) {st.inc("sword_no_structure"); return;}
      // "swordt" counts from the END of the stream (the last words of the last frame: where an over-read leaves the buffer) and uses near-miss values
      const bool tail = (k == "swordt");
      const uint32_t o = tail ? offs[offs.size()-1-(ToU(t[2]) % std::min<size_t>(offs.size(), 8))] : offs[ToU(t[2]) % offs.size()]; uint32_t v; memcpy(&v, s.data()+o, 4);
      static const int32_t near[] = {1, -1, 2, 3, 4, -4, 5, 8, -8, 12};
      const uint32_t nv = tail ? (uint32_t)((int64_t) v + near[ToU(t[3]) % 10]) : BoundaryValue((uint32_t) ToU(t[3]), v, len); memcpy(&s[o], &nv, 4); st.inc(tail ? "f.corrupt_structural_word_tail" : "f.corrupt_structural_word"); st.max("max.structural_words", offs.size());
   }
   else if ((k == "be16")&&(t.size() >= 4))
   {
      if (len < 2) return; const uint32_t o = (uint32_t)(ToU(t[2]) % (len-1));
      static const uint16_t vals[] = {0, 1, 125, 126, 127, 0x7fff, 0x8000, 0xffff, 0xfffe, 2, 16, 255, 256, 1000, 65535, 3};
      const uint16_t nv = vals[ToU(t[3]) % 16]; s[o] = (char)(nv >> 8); s[o+1] = (char)(nv & 0xff); st.inc("f.corrupt_boundary16");
   }
   else if (((k == "fhdr")||(k == "ftail"))&&(t.size() >= 4))
   {
      // independent walker of the documented stream framing: [uint32 bodyLength (top bit = flag)] [uint32 encoding] [body]
      std::vector<std::pair<uint32_t,uint32_t> > frames; uint32_t o = 0;
      while(o+8 <= len) {uint32_t v; memcpy(&v, s.data()+o, 4); const uint32_t bl = v & 0x7fffffffu; if ((uint64_t) o+8+bl > len) break; frames.push_back(std::make_pair(o, bl)); o += 8+bl;}
      if (frames.empty()) return;
      const std::pair<uint32_t,uint32_t> f = frames[ToU(t[2]) % frames.size()];
      uint32_t hv; memcpy(&hv, s.data()+f.first, 4);
      if (k == "fhdr") {const uint32_t nv = (hv & 0x80000000u) | (BoundaryValue((uint32_t) ToU(t[3]), f.second, len) & 0x7fffffffu); memcpy(&s[f.first], &nv, 4); st.inc("f.corrupt_frame_header");}
      else
      {
         // the frame loses its last n bytes and its header is adjusted to match: a well-framed body whose inner lengths claim more than it holds
         uint32_t n = 1 + (uint32_t)(ToU(t[3]) % 64); if (n > f.second) n = f.second;
         const uint32_t nv = (hv & 0x80000000u) | (f.second-n); memcpy(&s[f.first], &nv, 4);
         s.erase(f.first+8+f.second-n, n); st.inc("f.truncate_inside_frame");
      }
   }
   else if ((k == "flip")&&(t.size() >= 4)) {s[ToU(t[2]) % len] ^= (char)(1 << (ToU(t[3]) % 8)); st.inc("f.corrupt_flip");}
   else if ((k == "byte")&&(t.size() >= 4)) {s[ToU(t[2]) % len] = (char) ToU(t[3]); st.inc("f.corrupt_byte");}
   else if (k == "trunc") {s.resize(ToU(t[2]) % len); st.inc("f.truncate");}
   else if ((k == "ins")&&(t.size() >= 5)) {Rng r(ToU(t[4]), "garbage"); std::string g; const uint32_t n = (uint32_t) ToU(t[3]) % 4096; for (uint32_t i=0; i<n; i++) g += (char) r.u32(); s.insert(ToU(t[2]) % (len+1), g); st.inc("f.garbage");}
   else if ((k == "splice")&&(t.size() >= 5)) {const uint32_t from = (uint32_t)(ToU(t[2]) % len), to = (uint32_t)(ToU(t[3]) % len); uint32_t n = (uint32_t) ToU(t[4]); if (from+n > len) n = len-from; if (to+n > len) n = len-to; const std::string tmp = s.substr(from, n); s.replace(to, n, tmp); st.inc("f.splice");}
   else if ((k == "wsclose")&&(t.size() >= 4))
   {
      // WebSocket: a valid CLOSE (or PING) control frame is inserted at a frame boundary found by an independent walker of the RFC 6455 framing; the frames that followed it stay
      const size_t hs = s.find("\r\n\r\n"); if (hs == std::string::npos) return;
      std::vector<uint32_t> bounds; uint32_t o = (uint32_t) hs+4;
      while(o+2 <= len)
      {
         bounds.push_back(o);
         const uint8_t b1 = (uint8_t) s[o+1]; const bool masked = (b1 & 0x80) != 0; uint64_t pl = (b1 & 0x7f); uint32_t h = 2;
         if (pl == 126) {if (o+4 > len) break; pl = ((uint64_t)(uint8_t) s[o+2] << 8) | (uint8_t) s[o+3]; h = 4;}
         else if (pl == 127) {if (o+10 > len) break; pl = 0; for (int i=0; i<8; i++) pl = (pl << 8) | (uint8_t) s[o+2+i]; h = 10;}
         if (masked) h += 4;
         if ((uint64_t) o+h+pl > len) break;
         o += h+(uint32_t) pl;
      }
      if (o == len) bounds.push_back(o);
      if (bounds.empty()) return;
      const uint32_t at = bounds[ToU(t[2]) % bounds.size()];
      const bool clientStream = (at+1 < len) ? (((uint8_t) s[at+1] & 0x80) != 0) : true;   // client-to-server frames are masked
      const uint8_t opcode = (ToU(t[3]) % 4 == 3) ? 0x9 : 0x8;                              // mostly CLOSE, sometimes PING
      std::string f; f += (char)(0x80 | opcode); f += (char)(clientStream ? 0x80 : 0x00); if (clientStream) f += std::string("\x11\x22\x33\x44", 4);
      s.insert(at, f); st.inc((opcode == 0x8) ? "f.ws_close_frame_inserted" : "f.ws_ping_frame_inserted");
   }
   else if ((k == "dup")&&(t.size() >= 4)) {const uint32_t from = (uint32_t)(ToU(t[2]) % len); uint32_t n = (uint32_t) ToU(t[3]); if (from+n > len) n = len-from; s.insert(from, s.substr(from, n)); st.inc("f.splice_dup");}
}

// A delivered Message must be a well-formed object: every public observer works, it re-serialises to exactly the size it advertises,
// and the re-serialised bytes parse back to an equal Message.
inline void CheckWellFormed(const MessageRef & m, Stats & st)
{
   if (m() == NULL) Fail("null_message_delivered", "a gateway handed a NULL MessageRef to its receiver");
   const uint32 fs = m()->FlattenedSize();
   ByteBuffer bb; if (m()->FlattenToByteBuffer(bb).IsError()) Fail("delivered_message_unflattenable", "FlattenToByteBuffer failed on a delivered Message");
   if (bb.GetNumBytes() != fs) Fail("flattened_size_mismatch", "delivered Message: FlattenedSize()=" + U(fs) + " but Flatten wrote " + U(bb.GetNumBytes()));
   (void) m()->CalculateChecksum();
   // the printing walk over every field and item.  Into a String only for small Messages: muscle's String grows a large buffer one page per realloc(), and ASan's
   // realloc() always moves the block, so a multi-megabyte ToString() costs seconds of page faults that say nothing about a parser; large ones are printed to /dev/null
   if (fs <= 65536) {const String s = m()->ToString(); (void) s;}
   else {static FILE * nul = fopen("/dev/null", "w"); if (nul) m()->Print(OutputPrinter(nul)); else {const String s = m()->ToString(); (void) s;}}
   Message back; if (back.UnflattenFromByteBuffer(bb).IsError()) Fail("delivered_message_not_reparseable", "the re-serialised bytes of a delivered Message do not parse");
   ByteBuffer bb2; (void) back.FlattenToByteBuffer(bb2);
   if ((bb2.GetNumBytes() != bb.GetNumBytes())||(memcmp(bb2.GetBuffer(), bb.GetBuffer(), bb.GetNumBytes()) != 0)) Fail("delivered_message_unstable", "re-serialising a delivered Message twice gives different bytes");
   st.inc("msgs_delivered");
}

inline void Exec(const Plan & plan, RunResult & res)
{
   InstallAllocMeter();
   Cfg cfg(plan);
   int t = TFromName(cfg.s("gw", "bin")); if (t < 0) t = T_BIN;
   Stats & st = res.stats; TraceHash th;
   AllocCheck ac; g_allocCheck = &ac;
   struct Guard {~Guard() {g_allocCheck = NULL;}} guard;

   // 1. collect the plan
   std::vector<MessageRef> msgs; std::vector<std::vector<std::string> > muts; std::vector<uint32_t> rsched, inMax;
   for (const std::string & line : plan)
   {
      std::vector<std::string> tk = Split(line); if (tk.empty()) continue;
      if ((tk[0] == "msg")&&(tk.size() >= 3)) msgs.push_back(GenMessage(ToU(tk[1]), (int) ToI(tk[2]), (tk.size() >= 4) ? (int) ToI(tk[3]) : -1));
      else if ((tk[0] == "text")&&(tk.size() >= 3))
      {
         Rng r(ToU(tk[1]), "text"); MessageRef m = GetMessageFromPool(PR_COMMAND_TEXT_STRINGS);
         for (int i=0; i<(int) ToI(tk[2]); i++) {String l; const uint32 len = r.oneIn(5) ? 0 : (r.oneIn(6) ? (2030 + r.below(40)) : r.below(30)); for (uint32 k=0; k<len; k++) l += (char)(' ' + r.below(95)); (void) m()->AddString(PR_NAME_TEXT_LINE, l);}
         msgs.push_back(m);
      }
      else if ((tk[0] == "raw")&&(tk.size() >= 3))
      {
         Rng r(ToU(tk[1]), "raw"); MessageRef m = GetMessageFromPool(PR_COMMAND_RAW_DATA);
         for (int i=0; i<(int) ToI(tk[2]); i++)
         {
            const uint32 nb = r.oneIn(8) ? (3000 + r.below(6000)) : (1 + r.below(40)); ByteBuffer bb; (void) bb.SetNumBytes(nb, false);
            for (uint32 k=0; k<nb; k++) {static const uint8 sp[] = {0xC0, 0xDB, 0xDC, 0xDD}; bb.GetBuffer()[k] = r.oneIn(3) ? sp[r.below(4)] : (uint8) r.u32();}
            (void) m()->AddData(PR_NAME_DATA_CHUNKS, B_RAW_TYPE, bb.GetBuffer(), nb);
         }
         msgs.push_back(m);
      }
      else if (tk[0] == "mut") muts.push_back(tk);
      else if ((tk[0] == "chunks")&&(tk.size() >= 3)&&(tk[1] == "rr")) {for (size_t i=2; i<tk.size(); i++) rsched.push_back((uint32_t) ToU(tk[i]));}
      else if ((tk[0] == "in")&&(tk.size() >= 2)) inMax.push_back((uint32_t) ToU(tk[1]));
   }
   if (inMax.empty()) inMax.push_back(0);
   if (msgs.empty()) {res.hash = 1; return;}

   // 2. valid traffic from real sender code
   SetCurOp("C02 build valid traffic (%s)", kTNames[t]); WatchdogArm(0);
   Built valid; BuildValid(t, cfg, msgs, valid);
   const bool dgram = (t == T_TUNNEL)||(t == T_MINITUNNEL)||(t == T_UDP)||(t == T_UDPTEXT);

   // 3. the hostile transport rewrites it
   Built hostile = valid;
   if (dgram)
   {
      // mutations address the concatenation of all packets; packet boundaries are kept where possible
      for (auto & m : muts)
      {
         if (hostile.packets.empty()) break;
         const size_t pi = (size_t)(ToU(m.size() > 2 ? m[2] : "0") % hostile.packets.size());
         Mutate(hostile.packets[pi], m, st);
         if ((m.size() > 1)&&(m[1] == "dup")) hostile.packets.insert(hostile.packets.begin()+pi, hostile.packets[pi]);
      }
   }
   else for (auto & m : muts) Mutate(hostile.stream, m, st);
   st.inc(std::string("gw.") + kTNames[t]);
   if (muts.empty()) st.inc("runs_unmutated"); else st.inc("runs_mutated");
   th.u(hostile.stream.size()); th.u(hostile.packets.size());

   // 4. a real receiver consumes it under the chunk schedule
   std::vector<std::string> got; uint64_t delivered = 0; bool sawError = false;
   SetCurOp("C02 feed hostile traffic (%s, %zu bytes, %zu packets)", kTNames[t], hostile.stream.size(), hostile.packets.size()); WatchdogArm(0);
   if (t == T_MICRO)
   {
      // the C micro gateway: parses in place inside a caller-supplied buffer; every item of a delivered UMessage is then read through the public API
      SimStream in; in.q.assign(hostile.stream.begin(), hostile.stream.end()); in.closed = true; in.SetSched(false, rsched);
      std::vector<uint8_t> ib(1<<16), ob(64); UMessageGateway gw; UGGatewayInitialize(&gw, &ib[0], (uint32) ib.size(), &ob[0], (uint32) ob.size());
      size_t idle = 0, calls = 0;
      while((in.q.size() > 0)&&(calls < (hostile.stream.size()+50)*(rsched.size()+3)))
      {
         UMessage um; const uint64_t before = in.totalRead; const uint32 mx = inMax[calls % inMax.size()]; calls++;
         const int32 r = UGDoInput(&gw, mx ? mx : MUSCLE_NO_LIMIT, CRecv, &in, &um);
         th.u((uint64_t)(int64_t) r);
         if (UMIsMessageValid(&um))
         {
            // exact-size copy so that reads past the Message hit a red zone, then the walk
            std::vector<uint8_t> exact(UMGetFlattenedBuffer(&um), UMGetFlattenedBuffer(&um) + UMGetFlattenedSize(&um));
            UMessage copy; if ((!exact.empty())&&(UMInitializeWithExistingData(&copy, &exact[0], (uint32) exact.size()) == CB_NO_ERROR)) {WalkUMessage(&copy); FILE * nf = fopen("/dev/null", "w"); if (nf) {UMPrint(&copy, nf); fclose(nf);}}
            got.push_back(std::string((const char *) UMGetFlattenedBuffer(&um), UMGetFlattenedSize(&um))); delivered++; st.inc("msgs_delivered");
         }
         if (r < 0) {sawError = true; break;}
         if (in.totalRead == before) {if (++idle > rsched.size()+3) break;} else idle = 0;
      }
   }
   else if (t == T_MINI)
   {
      SimStream in; in.q.assign(hostile.stream.begin(), hostile.stream.end()); in.closed = true; in.SetSched(false, rsched);
      MMessageGateway * gw = MGAllocMessageGateway(); size_t idle = 0, calls = 0;
      while((in.q.size() > 0)&&(calls < (hostile.stream.size()+50)*(rsched.size()+3)))
      {
         MMessage * mm = NULL; const uint64_t before = in.totalRead; const uint64_t a0 = g_allocBytes;
         const uint32 mx = inMax[calls % inMax.size()]; calls++;
         const int32 r = MGDoInput(gw, mx ? mx : MUSCLE_NO_LIMIT, CRecv, &in, &mm);
         th.u((uint64_t)(int64_t) r);
         if (mm)
         {
            // well-formedness of the C object: size, flatten, re-parse, print
            const uint32 fs = MMGetFlattenedSize(mm); std::string b(fs ? fs : 1, '\0'); MMFlattenMessage(mm, &b[0]);
            MMessage * back = MMAllocMessage(0); if (MMUnflattenMessage(back, b.data(), fs) != CB_NO_ERROR) {MMFreeMessage(back); MMFreeMessage(mm); MGFreeMessageGateway(gw); Fail("c_delivered_message_not_reparseable", "MMUnflattenMessage rejects what MMFlattenMessage wrote for a delivered MMessage");}
            (void) MMAreMessagesEqual(mm, back);   // exercised, not judged: the C parser accepts two fields with one name (the name-keyed comparison then differs), which is odd but not unsafe
            MMFreeMessage(back); got.push_back(b.substr(0, fs)); MMFreeMessage(mm); delivered++; st.inc("msgs_delivered");
            ac.Note(fs+8, g_allocBytes-a0);   // includes the gateway's (2x declared size) body buffer, bounded by the bytes actually received
         }
         if (r < 0) {sawError = true; break;}
         if (in.totalRead == before) {if (++idle > rsched.size()+3) break;} else idle = 0;
      }
      MGFreeMessageGateway(gw);
      // Direct parser pass.  The C gateway parses out of a body buffer of twice the declared size, so a parser over-read of a few bytes stays inside the
      // gateway's own allocation; the property speaks of "the supplied buffer", so every well-framed body of the hostile stream is also handed to
      // MMUnflattenMessage() in an exactly-sized heap block (ASan red zone right behind it).
      {
         const std::string & hs = hostile.stream; uint32_t o = 0;
         for (int n=0; (n<64)&&(o+8 <= hs.size()); n++)
         {
            uint32_t bl; memcpy(&bl, hs.data()+o, 4); if ((bl == 0)||((uint64_t) o+8+bl > hs.size())) break;
            uint8_t * exactBuf = new uint8_t[bl]; memcpy(exactBuf, hs.data()+o+8, bl);
            MMessage * mm = MMAllocMessage(0);
            const uint64_t a0 = g_allocBytes;
            const c_status_t pr = MMUnflattenMessage(mm, exactBuf, bl); th.u((uint64_t) pr); st.inc("mini_direct_parses");
            ac.Note(bl, g_allocBytes-a0);   // the allocation bound holds for a parse that ends in an error status too (what a declared count made it allocate before it noticed)
            if (pr == CB_NO_ERROR) {const uint32 fs = MMGetFlattenedSize(mm); std::string b(fs ? fs : 1, '\0'); MMFlattenMessage(mm, &b[0]); th.u(fs); st.inc("mini_direct_parse_ok");}
            MMFreeMessage(mm); delete [] exactBuf;
            o += 8+bl;
         }
      }
   }
   else
   {
      AbstractMessageIOGatewayRef R = MakeReceiver(t, cfg);
      SimStream in, out; QueuePacketDataIO * pio = NULL;
      if (dgram) {pio = new QueuePacketDataIO((uint32) cfg.i("mtu", 1500)); pio->_rx.assign(hostile.packets.begin(), hostile.packets.end()); R()->SetDataIO(DataIORef(pio));}
      else {in.q.assign(hostile.stream.begin(), hostile.stream.end()); in.closed = true; in.SetSched(false, rsched); R()->SetDataIO(DataIORef(new SimDataIO(&in, &out)));}
      QueueGatewayMessageReceiver rq; size_t idle = 0, calls = 0;
      if ((t == T_WS)&&(cfg.i("wsc", 0))) {(void) R()->DoOutput(); out.q.clear(); st.inc("ws_client_role_runs");}   // the client's handshake request goes out first
      const size_t maxCalls = (hostile.stream.size() + hostile.packets.size() + 50) * (rsched.size() + 3);   // every schedule cycle moves at least one byte
      while(calls < maxCalls)
      {
         if (dgram ? pio->_rx.empty() : in.q.empty()) break;
         const uint64_t before = dgram ? (uint64_t) pio->_rx.size() : in.totalRead;
         const uint32 mx = inMax[calls % inMax.size()]; calls++;
         const io_status_t r = R()->DoInput(rq, mx ? mx : MUSCLE_NO_LIMIT);
         th.u((uint64_t)(int64_t) r.GetByteCount());
         MessageRef m; while(rq.GetMessages().RemoveHead(m).IsOK()) {CheckWellFormed(m, st); UnitsOf(t, m, got); delivered++;}
         if (t == T_WS) {(void) R()->DoOutput(); out.q.clear();}   // let the server emit its handshake reply / pongs / close frames
         if (r.IsError()) {sawError = true; th.s(r.GetStatus()()); break;}
         const uint64_t after = dgram ? (uint64_t) pio->_rx.size() : in.totalRead;
         if (after == before) {if (++idle > rsched.size()+3) break;} else idle = 0;
      }
      if (calls >= maxCalls) Fail("no_progress_loop", "the receiving gateway kept reporting success for " + U(calls) + " DoInput calls on a " + U(hostile.stream.size()) + "-byte stream without consuming it");

      // 5. reusable: after Reset() the same object must handle a fresh valid stream exactly
      if ((!dgram)&&(cfg.i("reuse", 1)))
      {
         SetCurOp("C02 reuse after Reset (%s)", kTNames[t]); WatchdogArm(0);
         R()->Reset();
         SimStream in2, out2; in2.q.assign(valid.stream.begin(), valid.stream.end()); in2.closed = true;
         R()->SetDataIO(DataIORef(new SimDataIO(&in2, &out2)));
         std::vector<std::string> got2;
         for (size_t i=0; (i < 64 + 2*valid.units.size() + valid.stream.size()/64)&&(in2.q.size() > 0); i++)
         {
            const io_status_t r = R()->DoInput(rq);
            MessageRef m; while(rq.GetMessages().RemoveHead(m).IsOK()) UnitsOf(t, m, got2);
            if (t == T_WS) {(void) R()->DoOutput(); out2.q.clear();}
            if (r.IsError()) break;
         }
         bool same = (got2.size() == valid.units.size()); if (same) for (size_t i=0; i<got2.size(); i++) if (got2[i] != valid.units[i]) same = false;
         if ((t == T_RAW)&&(cfg.i("minchunk", 0) > 0)) {same = true; const std::string & a = got2.empty() ? std::string() : got2[0]; const std::string & b = valid.units.empty() ? std::string() : valid.units[0]; if ((a.size() > b.size())||(b.compare(0, a.size(), a) != 0)||((b.size()-a.size()) >= (size_t) cfg.i("minchunk", 0))) same = false;}
         if (!same) Fail("not_reusable_after_reset", std::string(kTNames[t]) + " gateway: after " + (sawError ? "an error and " : "") + "Reset() a fresh valid stream of " + U(valid.units.size()) + " units was delivered as " + U(got2.size()) + " units");
         st.inc("reuse_checks");
      }
   }
   WatchdogDisarm();

   // an unmutated stream must be delivered exactly (keeps the harness honest: the valid traffic really is valid)
   if (muts.empty())
   {
      bool same = (got.size() == valid.units.size()); if (same) for (size_t i=0; i<got.size(); i++) if (got[i] != valid.units[i]) same = false;
      if ((t == T_RAW)&&(cfg.i("minchunk", 0) > 0)) same = true;
      if (!same) st.inc("p.unmutated_stream_not_delivered_exactly");   // (counted, not judged here: faithful delivery of valid traffic is C03's property; C02 judges what hostile bytes can do)
   }
   if (ac.exceeded) Fail("allocation_bound_exceeded", std::string(kTNames[t]) + ": parsing a complete " + U(ac.worstFrame) + "-byte frame allocated " + U(ac.worstAlloc) + " bytes (> 256*N + 1 MiB)");

   if (sawError) st.inc("runs_error_status"); else st.inc("runs_no_error");
   st.inc("frames_metered", ac.framesMetered);
   st.inc("hostile_bytes", hostile.stream.size());
   for (auto & g : got) th.s(g);
   th.u(sawError); th.u(delivered);
   res.hash = th.h;
   res.nontrivial = ((hostile.stream.size() + hostile.packets.size()) > 0);
}

}} // namespace vs::c02
