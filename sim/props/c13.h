// sim/props/c13.h -- C13: an ordered child index replayed from its update log equals the server's index (netsim/server)
#pragma once
#include "c04.h"

namespace vs { namespace c13 {

using namespace gen;

// index-heavy workload: 1-3 owner sessions keep ordered lists under a few parent nodes; 1-4 subscribers (incl. the owners) join at arbitrary points
inline Plan Gen(uint64_t seed)
{
   gen::ClauseModeScope clauseMode(seed);
   Rng cfg(seed, "config"), wl(seed, "workload"), fl(seed, "faults");
   Plan p;
   const int clients = 2 + (int) cfg.below(4), hosts = 1 + (int) cfg.below(2);
   const bool faultFree = cfg.oneIn(4);
   const bool quiet = cfg.oneIn(8);   // runs in which children are also removed QUIETLY: replicas may then go stale by design, the server-side index invariants must still hold
   p.push_back("cfg prop=C13 clients=" + I(clients) + " hosts=" + I(hosts) + " faultfree=" + I(faultFree) + " quiet=" + I(quiet));
   GenState g(clients, hosts);
   for (int c=0; c<clients; c++) if ((c < 2)||(cfg.pct(70))) GenConnect(p, g, cfg, fl, c, faultFree, 40);
   p.push_back("step 2");
   static const char * parents[] = {"L", "L/a", "M"};
   static const char * explicitKids[] = {"x", "y", "z", "w"};
   auto EK = [&](Rng & r) -> std::string {if ((gen::g_wideNames)&&(r.pct(60))) return "k" + I(r.below(12)); return explicitKids[r.below(4)];};   // wide mode: indices of up to ~20 entries
   const int nops = Rng(seed, "longrun").oneIn(20) ? (250 + (int) wl.below(350)) : (10 + (int) wl.below(wl.oneIn(4) ? 80 : 35));
   int sinceQuiesce = 0;
   for (int op=0; op<nops; op++)
   {
      int c = PickUp(g, wl);
      if (c < 0) {c = (int) wl.below((uint32_t) clients); GenConnect(p, g, cfg, fl, c, faultFree, 40); continue;}
      const bool inBatch = wl.oneIn(7);
      const std::string sendPfx = (inBatch ? "bsend " : "send ") + I(c) + " ";
      const std::string par = parents[wl.below(3)];
      const uint32_t k = wl.below(100);
      if ((wl.oneIn(14))&&(!g.intent[c].empty()))
      {
         // one BATCH: an index change followed by a request for the snapshot of nodes this client is subscribed to (the snapshot must not overtake the
         // instructions that the change before it produced); only subscribed patterns are requested, so every replica the client builds keeps being updated
         auto it = g.intent[c].begin(); std::advance(it, wl.below((uint32_t) g.intent[c].size()));
         std::string before = "-"; const uint32_t b = wl.below(10); if (b < 3) before = EK(wl); else if (b < 6) before = "I" + I(wl.below(6));
         p.push_back("bsend " + I(c) + " insord " + Esc(par) + " " + before + " " + U(g.val++));
         if (wl.oneIn(3)) p.push_back("bsend " + I(c) + " reorder " + Esc(par + "/" + (wl.oneIn(2) ? std::string(EK(wl)) : ("I" + I(wl.below(6))))) + " -");
         p.push_back("bsend " + I(c) + " getdata " + Esc(*it));
         p.push_back("bflush " + I(c));
      }
      else if (k < 8) p.push_back(sendPfx + "setdata " + (wl.oneIn(2) ? "s" : "-") + " " + par + "=" + U(g.val++) + ":-");   // (re)create a parent node; with the supercede flag the server prunes older queued updates of that node (never its queued index instructions)
      else if (k < 30)
      {
         // ordered insert: before a named sibling (explicit name, or a generated one I0..I5 that may or may not exist), or at the end; sometimes two per command; sometimes a wildcard parent
         const std::string pp = wl.oneIn(8) ? "*" : par;
         std::string s = "insord " + Esc(pp);
         const int n = wl.oneIn(4) ? 2 : 1;
         for (int i=0; i<n; i++) {std::string before = "-"; const uint32_t b = wl.below(10); if (b < 3) before = EK(wl); else if (b < 6) before = "I" + I(wl.below(6)); else if ((b == 9)&&(wl.oneIn(3))) before = "!Rmv"; s += " " + before + " " + U(g.val++);}   // ("!Rmv" as the position: create the child but keep it out of the index)
         p.push_back(sendPfx + s);
         if ((pp != "*")&&(wl.oneIn(5))) p.push_back(sendPfx + "setdata s " + par + "=" + U(g.val++) + ":-");
      }
      else if (k < 40) p.push_back(sendPfx + "setdata i " + par + "/" + (wl.oneIn(4) ? ("I" + I(wl.below(8))) : EK(wl)) + "=" + U(g.val++) + ":" + I(wl.below(4)));   // add-to-index with an explicit name
      else if (k < 46) p.push_back(sendPfx + "setdata - " + par + "/" + (wl.oneIn(2) ? EK(wl) : ("I" + I(wl.below(6)))) + "=" + U(g.val++) + ":1");   // plain set of an (un)indexed child
      else if (k < 58)
      {
         // reorder: move a child (or a wildcard selection) before a sibling, to the end, before itself, or out of the index
         const std::string child = wl.oneIn(5) ? std::string("*") : (wl.oneIn(2) ? std::string(EK(wl)) : ("I" + I(wl.below(6))));
         std::string to; const uint32_t b = wl.below(10);
         if (b < 3) to = "-"; else if (b < 5) to = "!Rmv"; else if (b < 7) to = EK(wl); else if (b < 9) to = "I" + I(wl.below(6)); else to = child;
         p.push_back(sendPfx + "reorder " + Esc(par + "/" + child) + " " + Esc(to));
      }
      else if ((k < 61)&&(wl.oneIn(2)))
      {
         // server-side clone or save+restore of an indexed parent into a sibling location, with or without the add-to-index flag
         static const char * dsts[] = {"L2", "M/copy", "L/a/c"};
         p.push_back(std::string(wl.oneIn(2) ? "srvclone " : "srvrestore ") + I(c) + " " + Esc(par) + " " + Esc(dsts[wl.below(3)]) + " " + (wl.oneIn(2) ? "i" : "-"));
      }
      else if (k < 66) p.push_back(sendPfx + "rmdata " + std::string(((quiet)&&(wl.oneIn(2))) ? "1 " : "0 ") + Esc(par + "/" + (wl.oneIn(4) ? std::string("*") : (wl.oneIn(2) ? std::string(EK(wl)) : ("I" + I(wl.below(6)))))));   // remove children
      else if (k < 69) p.push_back(sendPfx + "rmdata 0 " + Esc(par));                                                      // remove the indexed parent itself
      else if (k < 82)
      {
         // a subscriber joins: patterns that cover the parents (index notifications go to subscribers of the PARENT node)
         static const char * pats[] = {"*", "L", "L/*", "M", "?", "*/a", "/*/*/L", "(L|M)"};
         std::string pat;
         if ((!g.intent[c].empty())&&(wl.oneIn(5))) {auto it = g.intent[c].begin(); std::advance(it, wl.below((uint32_t) g.intent[c].size())); pat = *it;}
         else
         {
            pat = pats[wl.below(8)];
            const std::string norm = match::Normalise(pat); auto ni = g.intentNorm[c].find(norm);
            if ((ni != g.intentNorm[c].end())&&(ni->second != pat)) continue;
            g.intent[c].insert(pat); g.intentNorm[c][norm] = pat;
         }
         p.push_back(sendPfx + "sub " + I(g.opid++) + " 0 " + Esc(pat) + " -");
      }
      else if (k < 87)
      {
         if (g.intent[c].empty()) continue;
         auto it = g.intent[c].begin(); std::advance(it, wl.below((uint32_t) g.intent[c].size())); const std::string pat = *it; g.intent[c].erase(it);
         p.push_back(sendPfx + "unsub " + I(g.opid++) + " " + Esc(pat));
      }
      else if (k < 90) {const uint32_t how = wl.below(10); if (how < 6) p.push_back("close " + I(c)); else p.push_back("cut " + I(c) + " " + U(wl.below(3000))); g.up[c] = false;}
      else if (k < 93) {const int n = (int) wl.below((uint32_t) clients); if (!g.up[n]) GenConnect(p, g, cfg, fl, n, faultFree, 40);}
      else if ((k < 96)&&(!faultFree)) {if (fl.oneIn(2)) p.push_back("noread " + I(c) + " " + I(fl.below(2))); else p.push_back("stall " + I(c) + " " + I(fl.below(2)));}
      else GenPump(p, g, wl);
      if ((inBatch)&&(wl.oneIn(2))) p.push_back("bflush " + I(c));
      if (wl.pct(55)) GenPump(p, g, wl);
      if ((++sinceQuiesce >= 8 + (int) wl.below(10))||(wl.oneIn(12))) {for (int i=0; i<clients; i++) if (g.up[i]) p.push_back("bflush " + I(i)); p.push_back("quiesce"); sinceQuiesce = 0;}
   }
   for (int i=0; i<clients; i++) if (g.up[i]) p.push_back("bflush " + I(i));
   return p;
}

inline void Exec(const Plan & plan, RunResult & res)
{
   srv::Interp in(plan, res);
   in.sim.orc.index = true;
   in.sim.skipReplicaCompare = (Cfg(plan).i("quiet", 0) != 0);
   in.Run();
   const Stats & st = res.stats;
   auto get = [&](const char * k) {auto it = st.c.find(k); return (it == st.c.end()) ? (uint64_t) 0 : it->second;};
   res.nontrivial = (get("index_updates") >= 1)&&(get("index_replicas_checked") >= 1);
   if (Cfg(plan).i("faultfree", 0)) res.stats.inc("runs_fault_free"); else res.stats.inc("runs_with_faults");
}

}} // namespace vs::c13
