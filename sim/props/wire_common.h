// sim/props/wire_common.h -- shared pieces of the netsim/wire harness (C02, C03): gateway construction and unit extraction
#pragma once
#include <string>
#include <vector>
#include "system/SetupSystem.h"
#include "iogateway/MessageIOGateway.h"
#include "iogateway/TemplatingMessageIOGateway.h"
#include "iogateway/PlainTextMessageIOGateway.h"
#include "iogateway/RawDataMessageIOGateway.h"
#include "iogateway/SLIPFramedDataMessageIOGateway.h"
#include "iogateway/WebSocketMessageIOGateway.h"
#include "syslog/SysLog.h"
extern "C" {
#include "lang/c/minimessage/MiniMessageGateway.h"
#include "lang/c/micromessage/MicroMessageGateway.h"
}
#include "../core/core.h"
#include "../netsim/simio.h"
#include "../netsim/msggen.h"

namespace vs {

enum {GW_BIN = 0, GW_TMPL, GW_TEXT, GW_RAW, GW_SLIP, GW_WS, GW_CPP2MINI, GW_MINI2CPP, GW_CPP2MICRO, GW_MICRO2CPP, NUM_GW};
static const char * kGwNames[NUM_GW] = {"bin", "tmpl", "text", "raw", "slip", "ws", "cpp2mini", "mini2cpp", "cpp2micro", "micro2cpp"};
inline int GwFromName(const std::string & s) {for (int i=0; i<NUM_GW; i++) if (s == kGwNames[i]) return i; return -1;}

// The receiving gateway copies each frame into an exactly-sized heap buffer before parsing, so that any read past
// the frame hits an ASan red zone instead of stale bytes of the gateway's 2048-byte scratch allocation.
template<class Base> class ExactFrame : public Base
{
public:
   ExactFrame() {}
   template<class A> explicit ExactFrame(A a) : Base(a) {}
   template<class A, class B> ExactFrame(A a, B b) : Base(a, b) {}
   virtual muscle::MessageRef UnflattenHeaderAndMessage(const muscle::ConstByteBufferRef & bufRef) const
   {
      if (bufRef() == NULL) return Base::UnflattenHeaderAndMessage(bufRef);
      muscle::ByteBufferRef copy = muscle::GetByteBufferFromPool(bufRef()->GetNumBytes(), bufRef()->GetBuffer());
      return Base::UnflattenHeaderAndMessage(copy);
   }
};

// SimStream adapters for the C gateways' callback I/O
inline int32_t CSend(const uint8_t * buf, uint32_t n, void * arg) {SimStream * s = (SimStream *) arg; int64_t r = s->Write(buf, n); return (int32_t) r;}
inline int32_t CRecv(uint8_t * buf, uint32_t n, void * arg) {SimStream * s = (SimStream *) arg; int64_t r = s->Read(buf, n); return (int32_t) r;}

// Builds a UMessage (C micro codec, no dynamic allocation: everything lives in caller-supplied buffers) with the same content as a C++ Message
// of the common type repertoire.  Child Messages are built in buffers kept alive in (scratch).  Returns false if some field cannot be expressed.
inline bool FillUMessage(UMessage * um, const muscle::Message & m, std::vector<std::vector<uint8_t> > & scratch, int depth = 0)
{
   using namespace muscle;
   for (MessageFieldNameIterator it(m); it.HasData(); it++)
   {
      const char * fn = it.GetFieldName()(); uint32 tc = 0, n = 0;
      if (m.GetInfo(it.GetFieldName(), &tc, &n).IsError()) return false;
      c_status_t r = CB_NO_ERROR;
      switch(tc)
      {
         case B_BOOL_TYPE:   {std::vector<UBool> v(n); for (uint32 i=0; i<n; i++) {bool b = false; (void) m.FindBool(fn, i, b); v[i] = b ? UTrue : UFalse;} r = UMAddBools(um, fn, n ? &v[0] : NULL, n);} break;
         case B_INT8_TYPE:   {std::vector<int8> v(n);  for (uint32 i=0; i<n; i++) (void) m.FindInt8(fn, i, v[i]);  r = UMAddInt8s(um, fn, n ? &v[0] : NULL, n);} break;
         case B_INT16_TYPE:  {std::vector<int16> v(n); for (uint32 i=0; i<n; i++) (void) m.FindInt16(fn, i, v[i]); r = UMAddInt16s(um, fn, n ? &v[0] : NULL, n);} break;
         case B_INT32_TYPE:  {std::vector<int32> v(n); for (uint32 i=0; i<n; i++) (void) m.FindInt32(fn, i, v[i]); r = UMAddInt32s(um, fn, n ? &v[0] : NULL, n);} break;
         case B_INT64_TYPE:  {std::vector<int64> v(n); for (uint32 i=0; i<n; i++) (void) m.FindInt64(fn, i, v[i]); r = UMAddInt64s(um, fn, n ? &v[0] : NULL, n);} break;
         case B_FLOAT_TYPE:  {std::vector<float> v(n); for (uint32 i=0; i<n; i++) (void) m.FindFloat(fn, i, v[i]); r = UMAddFloats(um, fn, n ? &v[0] : NULL, n);} break;
         case B_DOUBLE_TYPE: {std::vector<double> v(n); for (uint32 i=0; i<n; i++) (void) m.FindDouble(fn, i, v[i]); r = UMAddDoubles(um, fn, n ? &v[0] : NULL, n);} break;
         case B_POINT_TYPE:  {std::vector<UPoint> v(n); for (uint32 i=0; i<n; i++) {Point p; (void) m.FindPoint(fn, i, p); v[i].x = p.x(); v[i].y = p.y();} r = UMAddPoints(um, fn, n ? &v[0] : NULL, n);} break;
         case B_RECT_TYPE:   {std::vector<URect> v(n); for (uint32 i=0; i<n; i++) {Rect q; (void) m.FindRect(fn, i, q); v[i].left = q.left(); v[i].top = q.top(); v[i].right = q.right(); v[i].bottom = q.bottom();} r = UMAddRects(um, fn, n ? &v[0] : NULL, n);} break;
         case B_STRING_TYPE: {std::vector<const char *> v(n); std::vector<std::string> keep(n); for (uint32 i=0; i<n; i++) {const String * sp = NULL; (void) m.FindString(fn, i, &sp); keep[i] = sp ? std::string(sp->Cstr()) : std::string(); v[i] = keep[i].c_str();} r = UMAddStrings(um, fn, n ? &v[0] : NULL, n);} break;
         case B_MESSAGE_TYPE:
         {
            if (depth > 4) return false;
            std::vector<UMessage> kids(n);
            for (uint32 i=0; i<n; i++)
            {
               MessageRef sub; if (m.FindMessage(fn, i, sub).IsError()) return false;
               scratch.push_back(std::vector<uint8_t>(sub()->FlattenedSize() + 64));
               std::vector<uint8_t> & buf = scratch.back();
               if (UMInitializeToEmptyMessage(&kids[i], &buf[0], (uint32) buf.size(), sub()->what) != CB_NO_ERROR) return false;
               if (!FillUMessage(&kids[i], *sub(), scratch, depth+1)) return false;
            }
            r = UMAddMessages(um, fn, n ? &kids[0] : NULL, n);
         }
         break;
         default: return false;
      }
      if (r != CB_NO_ERROR) return false;
   }
   return true;
}

// Touches every item of a (possibly hostile) UMessage through the public read API: the C02 well-formedness walk for the micro codec
inline void WalkUMessage(const UMessage * um, int depth = 0)
{
   if ((UMIsMessageValid(um) == UFalse)||(depth > 16)) return;
   (void) UMGetWhatCode(um); (void) UMGetNumFields(um); (void) UMGetFlattenedSize(um);
   UMessageFieldNameIterator it; UMIteratorInitialize(&it, um, B_ANY_TYPE);
   for (int guard=0; guard<100000; guard++)
   {
      uint32 n = 0, tc = 0; const char * fn = UMIteratorGetCurrentFieldName(&it, &n, &tc); if (fn == NULL) break;
      volatile uint64_t sink = strlen(fn);
      for (uint32 i=0; (i<n)&&(i<100000); i++) switch(tc)
      {
         case B_BOOL_TYPE:   {UBool b; if (UMFindBool(um, fn, i, &b) == CB_NO_ERROR) sink += (uint64_t) b;} break;
         case B_INT32_TYPE:  {int32 v; if (UMFindInt32(um, fn, i, &v) == CB_NO_ERROR) sink += (uint64_t) v;} break;
         case B_INT64_TYPE:  {int64 v; if (UMFindInt64(um, fn, i, &v) == CB_NO_ERROR) sink += (uint64_t) v;} break;
         case B_INT16_TYPE:  {int16 v; if (UMFindInt16(um, fn, i, &v) == CB_NO_ERROR) sink += (uint64_t) v;} break;
         case B_INT8_TYPE:   {int8 v;  if (UMFindInt8(um, fn, i, &v) == CB_NO_ERROR) sink += (uint64_t) v;} break;
         case B_FLOAT_TYPE:  {float v; if (UMFindFloat(um, fn, i, &v) == CB_NO_ERROR) sink += (v > 0) ? 1 : 0;} break;
         case B_DOUBLE_TYPE: {double v; if (UMFindDouble(um, fn, i, &v) == CB_NO_ERROR) sink += (v > 0) ? 1 : 0;} break;
         case B_POINT_TYPE:  {UPoint v; if (UMFindPoint(um, fn, i, &v) == CB_NO_ERROR) sink += (v.x > 0) ? 1 : 0;} break;
         case B_RECT_TYPE:   {URect v; if (UMFindRect(um, fn, i, &v) == CB_NO_ERROR) sink += (v.left > 0) ? 1 : 0;} break;
         case B_STRING_TYPE: {const char * sp = UMGetString(um, fn, i); if (sp) sink += strlen(sp);} break;
         case B_MESSAGE_TYPE:{UMessage sub; if (UMFindMessage(um, fn, i, &sub) == CB_NO_ERROR) WalkUMessage(&sub, depth+1);} break;
         default:            {const void * d = NULL; uint32 nb = 0; if ((UMFindData(um, fn, tc, i, &d, &nb) == CB_NO_ERROR)&&(d)) {const uint8_t * b = (const uint8_t *) d; for (uint32 k=0; k<nb; k++) sink += b[k];}} break;
      }
      (void) sink;
      UMIteratorAdvance(&it);
   }
}

} // namespace vs
