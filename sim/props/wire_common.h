// sim/props/wire_common.h -- shared pieces of the netsim/wire harness (C02, C03): gateway construction and unit extraction
#pragma once
#include <string>
#include <vector>
#include "system/SetupSystem.h"
#include "iogateway/MessageIOGateway.h"
#include "iogateway/TemplatingMessageIOGateway.h"
#include "iogateway/PlainTextMessageIOGateway.h"
#include "iogateway/RawDataMessageIOGateway.h"
#include "iogateway/SLIPFramedDataMessageIOGateway.h"
#include "iogateway/WebSocketMessageIOGateway.h"
#include "syslog/SysLog.h"
extern "C" {
#include "lang/c/minimessage/MiniMessageGateway.h"
#include "lang/c/micromessage/MicroMessageGateway.h"
}
#include "../core/core.h"
#include "../netsim/simio.h"
#include "../netsim/msggen.h"

namespace vs {

enum {GW_BIN = 0, GW_TMPL, GW_TEXT, GW_RAW, GW_SLIP, GW_WS, GW_CPP2MINI, GW_MINI2CPP, GW_CPP2MICRO, GW_MICRO2CPP, NUM_GW};
static const char * kGwNames[NUM_GW] = {"bin", "tmpl", "text", "raw", "slip", "ws", "cpp2mini", "mini2cpp", "cpp2micro", "micro2cpp"};
inline int GwFromName(const std::string & s) {for (int i=0; i<NUM_GW; i++) if (s == kGwNames[i]) return i; return -1;}

// The receiving gateway copies each frame into an exactly-sized heap buffer before parsing, so that any read past
// the frame hits an ASan red zone instead of stale bytes of the gateway's 2048-byte scratch allocation.
template<class Base> class ExactFrame : public Base
{
public:
   ExactFrame() {}
   template<class A> explicit ExactFrame(A a) : Base(a) {}
   template<class A, class B> ExactFrame(A a, B b) : Base(a, b) {}
   virtual muscle::MessageRef UnflattenHeaderAndMessage(const muscle::ConstByteBufferRef & bufRef) const
   {
      if (bufRef() == NULL) return Base::UnflattenHeaderAndMessage(bufRef);
      muscle::ByteBufferRef copy = muscle::GetByteBufferFromPool(bufRef()->GetNumBytes(), bufRef()->GetBuffer());
      return Base::UnflattenHeaderAndMessage(copy);
   }
};

// SimStream adapters for the C gateways' callback I/O
inline int32_t CSend(const uint8_t * buf, uint32_t n, void * arg) {SimStream * s = (SimStream *) arg; int64_t r = s->Write(buf, n); return (int32_t) r;}
inline int32_t CRecv(uint8_t * buf, uint32_t n, void * arg) {SimStream * s = (SimStream *) arg; int64_t r = s->Read(buf, n); return (int32_t) r;}

} // namespace vs
