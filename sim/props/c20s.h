// sim/props/c20s.h -- C20, second oracle: ReflectServer as the pulse-node manager (netsim/server worker, property id C20S, reported as C20).
// The real ReflectServer event loop is stepped one iteration at a time (ServerProcessLoop(0, &next)) under the simulated clock with
// instrumented sessions (socket-less and with a simulated socket) and instrumented session-I/O policies as its manager-level pulse nodes.
// Same shadow model as c20.h: a node's requested time is what its GetPulseTime() override last answered; nothing of the server's private
// state is read.  Judged per loop iteration, at the instant the server waits (its select() call = "the next wait"):
//   every attached node whose time is not in force has been asked again;  the wake-up time the loop reports is not later than the minimum;
//   every node that was due at that instant has had its Pulse() run (once) by the end of the iteration, none runs early or with a wrong
//   scheduled time, none that is detached runs at all.  Callbacks add sessions (growing the server's session table mid-sweep), end
//   sessions and re-time other nodes from inside Pulse().
#pragma once
#include <set>
#include <string>
#include <vector>
#include <map>
#include "system/SetupSystem.h"
#include "reflector/ReflectServer.h"
#include "reflector/AbstractReflectSession.h"
#include "reflector/AbstractSessionIOPolicy.h"
#include "iogateway/MessageIOGateway.h"
#include "syslog/SysLog.h"
#include "../core/core.h"
#include "../netsim/wraps.h"
#include "../netsim/simio.h"
#include <sys/eventfd.h>
#include <unistd.h>

namespace vs { namespace c20s {

using namespace muscle;
static const uint64_t kNever = MUSCLE_TIME_NEVER;
inline std::string TS(uint64_t t) {return (t == kNever) ? std::string("never") : U(t);}

// ----------------------------------------------------------------------------------------------- plan generation
// cfg prop=C20S
// sess <id> <sock 0|1> <policy -1|0|1>   add a session (socket-less, or with a simulated socket and optionally an input/output I/O policy)
// want <id> <t|+d|never>                 node <id> (session, or policy 100/101) will answer t; InvalidatePulseTime()
// period <id> <d>                        after each Pulse() the node asks for callbackTime+d
// inpulse <id> spawn <n> | want <id2> <t> | end <id2>     performed from inside <id>'s next Pulse()
// end <id>                               EndSession() (the session leaves at the start of the next iteration)
// out <id> <n>                           queue a Message of about n bytes for the session's (never reading) peer: its output policy has I/O to meter
// fact <id 200|201> <ready 0|1>           add an accept factory (a real listening socket on an OS-chosen loopback port; nobody connects) with its own timer
// ready <id> <0|1>                       the factory pauses / resumes accepting (IsReadyToAcceptSessions()): a paused factory keeps its timer
// iter <delta>                           move the clock to (reported wake-up time + delta), run one server loop iteration
inline Plan Gen(uint64_t seed)
{
   Rng cfg(seed, "config"), wl(seed, "workload");
   // stall: the output stall limit of every session's transport (as a TCP socket's 3 minutes; 0 = none): a session whose queued output has not moved for that long is dropped
   static const uint64_t stalls[] = {0, 180000000, 180000000, 40, 5000}; Rng sr(seed, "stall");
   Plan p; p.push_back("cfg prop=C20S stall=" + U(stalls[sr.below(5)]));
   int nextId = 1; std::vector<int> alive; std::vector<bool> sock(400, false);
   auto tm = [&](Rng & r) -> std::string {const uint32_t k = r.below(10); if (k == 0) return "never"; if (k == 1) return "+0"; if (k == 2) return "0"; return "+" + U(1 + r.below(r.oneIn(3) ? 100000 : 50));};
   const int initial = 1 + (int) wl.below(12);
   for (int i=0; i<initial; i++) {const int id = nextId++; const bool s = wl.oneIn(3); sock[(size_t) id] = s; p.push_back("sess " + I(id) + " " + I(s) + " " + I(s ? ((int) wl.below(3) - 1) : -1)); alive.push_back(id); if (wl.pct(70)) p.push_back("want " + I(id) + " " + tm(wl)); if (wl.oneIn(5)) p.push_back("period " + I(id) + " " + U(1 + wl.below(60)));}
   const int nfact = Rng(seed, "factories").oneIn(3) ? (1 + (int) wl.below(2)) : 0;
   for (int f=0; f<nfact; f++) {p.push_back("fact " + I(200+f) + " " + I(wl.oneIn(3) ? 0 : 1)); if (wl.pct(70)) p.push_back("want " + I(200+f) + " " + tm(wl)); if (wl.oneIn(4)) p.push_back("period " + I(200+f) + " " + U(1 + wl.below(60)));}
   const int nops = 6 + (int) wl.below(40);
   for (int op=0; op<nops; op++)
   {
      const uint32_t k = wl.below(100);
      auto any = [&]() -> int {return alive.empty() ? 0 : alive[wl.below((uint32_t) alive.size())];};
      if ((nfact > 0)&&(wl.oneIn(8))) {const int f = 200 + (int) wl.below((uint32_t) nfact); if (wl.oneIn(2)) p.push_back("ready " + I(f) + " " + I(wl.below(2))); else p.push_back("want " + I(f) + " " + tm(wl)); continue;}
      if (k < 30) {const int64_t d = wl.oneIn(4) ? -(int64_t)(1 + wl.below(20)) : (wl.oneIn(3) ? (int64_t)(1 + wl.below(200)) : 0); p.push_back("iter " + I(d));}
      else if (k < 50) {const int n = wl.oneIn(5) ? (100 + (int) wl.below(2)) : any(); p.push_back("want " + I(n) + " " + tm(wl));}
      else if (k < 56) {if (nextId < 380) {const int id = nextId++; const bool s = wl.oneIn(3); sock[(size_t) id] = s; p.push_back("sess " + I(id) + " " + I(s) + " " + I(s ? ((int) wl.below(3) - 1) : -1)); alive.push_back(id); p.push_back("want " + I(id) + " " + tm(wl));}}
      else if (k < 70)
      {
         // from inside a Pulse(): grow the session table (to and past its re-hash sizes 7, 14, 28, 56 ...), re-time or end somebody else
         const int n = any(); const uint32_t q = wl.below(10);
         if ((q < 2)&&(nextId < 300)&&(Rng(seed, "inquery").oneIn(2))) {static const int qc[] = {1, 1, 2, 3, 7, 8}; const int c = qc[wl.below(6)]; p.push_back("inquery " + I(n) + " spawn " + I(c)); nextId += c; for (int i=nextId-c; i<nextId; i++) alive.push_back(i);}
         else if ((q < 5)&&(nextId < 300)) {static const int cnts[] = {1, 2, 3, 5, 7, 8, 13, 15, 29}; const int c = cnts[wl.below(9)]; p.push_back("inpulse " + I(n) + " spawn " + I(c)); nextId += c; for (int i=nextId-c; i<nextId; i++) alive.push_back(i);}
         else if (q < 8) p.push_back("inpulse " + I(n) + " want " + I(any()) + " " + tm(wl));
         else {const int v = any(); if (v != n) p.push_back("inpulse " + I(n) + " end " + I(v));}
         if (wl.pct(70)) p.push_back("want " + I(n) + " " + (wl.oneIn(2) ? "+0" : ("+" + U(1 + wl.below(30)))));
      }
      else if (k < 75) {const int v = any(); if (v) {p.push_back("end " + I(v)); for (size_t i=0; i<alive.size(); i++) if (alive[i] == v) {alive.erase(alive.begin()+(long) i); break;}}}
      else if (k < 82) {const int n = any(); p.push_back("period " + I(n) + " " + U(wl.oneIn(4) ? 0 : (1 + wl.below(80))));}
      else if (k < 90) {std::vector<int> ss; for (int a : alive) if (sock[(size_t) a]) ss.push_back(a); if (!ss.empty()) {const int sid = ss[wl.below((uint32_t) ss.size())]; if (wl.oneIn(3)) p.push_back("block " + I(sid) + " " + I(wl.oneIn(3) ? 0 : 1)); p.push_back("out " + I(sid) + " " + U(10 + wl.below(3000)));}}   /* block: the peer stops reading, so output stays queued while the server waits */
      else p.push_back("iter 0");
   }
   p.push_back("iter 0"); p.push_back("iter 0");
   return p;
}

// ----------------------------------------------------------------------------------------------- execution
struct H;
struct Shadow
{
   int id = -1; bool isPolicy = false, isFactory = false; bool attached = false, everAttached = false, sock = false;
   uint64_t want = kNever, reported = kNever; bool valid = false; int cause = 0;   // cause: 1 new, 2 invalidated, 3 pulsed
   uint64_t period = 0, pulsedIter = 0, retimedIter = 0; int holders = 0;
   uint64_t lateAttachIter = 0;   // the iteration in which it was attached from inside an I/O policy's GetPulseTime(), i.e. after the server's pass over its sessions (known finding F32)   // retimedIter: iteration in which a callback withdrew our time in force
   std::vector<std::vector<std::string> > inPulse, inQuery;
};
class PSession : public AbstractReflectSession
{
public:
   PSession(H * h, int id) : _h(h), _id(id) {}
   virtual void MessageReceivedFromGateway(const MessageRef &, void *) {}
   virtual DataIORef CreateDataIO(const ConstSocketRef & s);
   virtual uint64 GetPulseTime(const PulseArgs & args);
   virtual void Pulse(const PulseArgs & args);
   virtual status_t AttachedToServer();
   virtual void AboutToDetachFromServer();
   void Inv() {InvalidatePulseTime();}
   H * _h; int _id; SimStream _in, _out;
};
class PPolicy : public AbstractSessionIOPolicy
{
public:
   PPolicy(H * h, int id) : _h(h), _id(id) {}
   virtual void PolicyHolderAdded(const PolicyHolder &);
   virtual void PolicyHolderRemoved(const PolicyHolder &);
   virtual void BeginIO(uint64) {}
   virtual bool OkayToTransfer(const PolicyHolder &) {return true;}
   virtual uint32 GetMaxTransferChunkSize(const PolicyHolder &) {return MUSCLE_NO_LIMIT;}
   virtual void BytesTransferred(const PolicyHolder &, uint32) {}
   virtual void EndIO(uint64) {}
   virtual uint64 GetPulseTime(const PulseArgs & args);
   virtual void Pulse(const PulseArgs & args);
   void Inv() {InvalidatePulseTime();}
   H * _h; int _id;
};

class PFactory : public ReflectSessionFactory
{
public:
   PFactory(H * h, int id, bool ready) : _h(h), _id(id), _ready(ready) {}
   virtual AbstractReflectSessionRef CreateSession(const String &, const IPAddressAndPort &) {return AbstractReflectSessionRef();}   // (nobody ever connects)
   virtual bool IsReadyToAcceptSessions() const {return _ready;}
   virtual uint64 GetPulseTime(const PulseArgs & args);
   virtual void Pulse(const PulseArgs & args);
   void Inv() {InvalidatePulseTime();}
   H * _h; int _id; bool _ready;
};

struct H
{
   RunResult & res; Stats & st; TraceHash th;
   ReflectServer * server = NULL;
   std::map<int, Shadow> sh;                        // id -> shadow (sessions 0.., policies 100/101)
   std::map<int, PSession *> sess; std::map<int, int> fdOf;
   AbstractSessionIOPolicyRef pol[2]; std::map<int, PFactory *> facts;
   bool failed = false; std::string fcls, fdetail;
   uint64_t iterNo = 0, lastNext = kNever, tSel = 0, mmPrep = kNever; bool sawSelect = false; std::vector<int> dueAtWait;
   int nextSpawnId = 1;
   static H * s_cur;

   H(RunResult & r) : res(r), st(r.stats) {s_cur = this; g_simSelectHandler = &H::SelectHandler; server = new ReflectServer; pol[0].SetRef(new PPolicy(this, 100)); pol[1].SetRef(new PPolicy(this, 101)); sh[100].id = 100; sh[100].isPolicy = true; sh[101].id = 101; sh[101].isPolicy = true;}
   ~H()
   {
      g_simSelectHandler = NULL; s_cur = NULL;
      if (server) {server->Cleanup(); delete server;}
      for (auto & kv : fdOf) close(kv.second);
   }
   void Note(const char * cls, const std::string & d) {if (!failed) {failed = true; fcls = cls; fdetail = d;}}
   void Check() {if (failed) Fail(fcls, fdetail);}
   std::string Desc(const Shadow & s) const {return std::string(s.isPolicy ? "I/O policy " : (s.isFactory ? "accept factory " : "session ")) + I(s.id) + " (requested " + (s.valid ? TS(s.reported) : std::string("nothing in force")) + ")";}
   bool IsAttached(const Shadow & s) const {return s.isPolicy ? (s.holders > 0) : s.attached;}

   // the server's wait: everything is prepared, nothing of this iteration has been pulsed yet
   static int SelectHandler(int, fd_set * r, fd_set * w, fd_set * e, struct timeval *)
   {
      H * h = s_cur; if (h) h->AtWait();
      int cnt = 0;   // sockets: always writable, never readable (the peers never send and never read; the streams are unbounded)
      if (r) FD_ZERO(r); if (e) FD_ZERO(e);
      if (w) {for (int fd=0; fd<FD_SETSIZE; fd++) if (FD_ISSET(fd, w)) {if ((h)&&(h->blockedFds.count(fd))) FD_CLR(fd, w); else cnt++;}}   // (except those of peers that stopped reading)
      return cnt;
   }
   void AtWait()
   {
      if (sawSelect) return;   // (one wait per iteration)
      sawSelect = true; tSel = g_simNowUs; mmPrep = kNever; dueAtWait.clear();
      for (auto & kv : sh)
      {
         Shadow & s = kv.second; if (!IsAttached(s)) continue;
         if (!s.valid)
         {
            if ((s.lateAttachIter == iterNo)&&(iterNo > 0)) Note("session_attached_from_policy_getpulsetime_not_asked_before_wait", Desc(s) + " was attached from inside an I/O policy's GetPulseTime() -- which the server calls after its pass over the sessions -- and was not asked for its pulse time before the server's next wait");
            else if (s.cause == 3) Note("not_requeried_after_pulse", Desc(s) + " ran its Pulse() but was not asked for its next pulse time before the server's next wait");
            else Note("not_requeried_after_invalidate", Desc(s) + " was not asked for its pulse time before the server's next wait");
            continue;
         }
         if (s.reported < mmPrep) mmPrep = s.reported;
         if (s.reported <= tSel) dueAtWait.push_back(s.id);
      }
   }
   uint64_t OnQuery(int id, uint64_t callTime, uint64_t prev)
   {
      Shadow & s = sh[id]; s.reported = s.want; s.valid = true; s.cause = 0;
      th.u(0x51); th.u((uint64_t) id); th.u(s.want); (void) callTime; (void) prev; st.inc("queries");
      if (g_verbose) fprintf(stderr, "      GetPulseTime(%d) -> %s\n", id, TS(s.want).c_str());
      const uint64_t answer = s.want;
      if ((!failed)&&(!s.inQuery.empty()))
      {
         // from inside GetPulseTime(): new sessions join while the server is in the middle of asking everybody (its session table grows, possibly re-allocating, under the server's own iteration)
         std::vector<std::vector<std::string> > ops; ops.swap(sh[id].inQuery);
         for (auto & t : ops) if ((t.size() >= 2)&&(t[0] == "spawn")) {th.s("inquery"); const int n = (int) std::min<uint64_t>(ToU(t[1]), 40); for (int i=0; i<n; i++) {const int nid = AllocId(); if (nid < 0) break; AddSession(nid, false, -1); SetWant(nid, g_simNowUs + 1 + (uint64_t)(i*3), true); if (sh[id].isPolicy) {sh[nid].lateAttachIter = iterNo; st.inc("p.session_attached_from_inside_a_policys_getpulsetime");}} st.inc("p.sessions_spawned_from_inside_getpulsetime");}
      }
      return answer;
   }
   void OnPulse(int id, uint64_t callTime, uint64_t schedTime)
   {
      Shadow & s = sh[id]; st.inc("callbacks");
      th.u(0x50); th.u((uint64_t) id); th.u(schedTime);
      if (g_verbose) fprintf(stderr, "      Pulse(%d; now=%llu scheduled=%s)\n", id, (unsigned long long) callTime, TS(schedTime).c_str());
           if (!IsAttached(s))             Note("detached_node_pulsed", Desc(s) + " is not attached to the server but its Pulse() ran");
      else if (s.pulsedIter == iterNo)     Note("pulsed_twice", Desc(s) + " had Pulse() called twice in one server loop iteration");
      else if (!s.valid)                   Note("pulsed_early", Desc(s) + " had Pulse() called although it has no requested time in force");
      else if (s.reported > callTime)      Note("pulsed_early", Desc(s) + " had Pulse() called at " + U(callTime) + ", " + ((s.reported == kNever) ? std::string("never asked for") : U(s.reported-callTime) + " us early"));
      else if (schedTime != s.reported)    Note("wrong_scheduled_time", Desc(s) + " got GetScheduledTime()=" + TS(schedTime) + " in its Pulse()");
      if (s.period) s.want = (callTime > (kNever-1)-s.period) ? (kNever-1) : (callTime+s.period); else if (s.want == s.reported) s.want = kNever;
      s.valid = false; s.cause = 3; s.pulsedIter = iterNo;
      if (failed) return;
      std::vector<std::vector<std::string> > ops; ops.swap(s.inPulse);
      for (auto & t : ops)
      {
         if (t.empty()) continue;
         th.s("inpulse"); th.s(t[0]);
         if ((t[0] == "spawn")&&(t.size() >= 2)) {const int n = (int) std::min<uint64_t>(ToU(t[1]), 40); for (int i=0; i<n; i++) {const int nid = AllocId(); if (nid < 0) break; AddSession(nid, false, -1); SetWant(nid, g_simNowUs + 1 + (uint64_t)(i % 3), true);} st.inc("p.sessions_added_from_inside_pulse", (uint64_t) n);}
         else if ((t[0] == "want")&&(t.size() >= 3)) {uint64_t tmv; if (ParseT(t[2], tmv)) SetWant((int) ToI(t[1]), tmv, true); st.inc("p.retimed_from_inside_pulse");}
         else if ((t[0] == "end")&&(t.size() >= 2)) {EndSess((int) ToI(t[1])); st.inc("p.session_ended_from_inside_pulse");}
      }
   }
   bool ParseT(const std::string & s, uint64_t & out) const
   {
      if (s.empty()) return false; if (s == "never") {out = kNever; return true;}
      if (s[0] == '+') {out = g_simNowUs + ToU(s.substr(1)); return true;}
      if ((s[0] < '0')||(s[0] > '9')) return false; out = ToU(s); return true;
   }
   int AllocId() {while((nextSpawnId < 399)&&(sh.find(nextSpawnId) != sh.end())) nextSpawnId++; return (nextSpawnId < 399) ? nextSpawnId : -1;}
   std::set<int> blockedFds; uint64_t stallLimit = 0;
   void Block(int id, bool on)
   {
      auto si = sess.find(id); auto fi = fdOf.find(id); if ((si == sess.end())||(fi == fdOf.end())) return;
      si->second->_out.capacity = on ? 0 : (uint64_t)-1;
      if (on) {blockedFds.insert(fi->second); st.inc("f.peer_stopped_reading");} else blockedFds.erase(fi->second);
   }
   void AddSession(int id, bool withSock, int policy)
   {
      if ((id < 0)||((id >= 100)&&(id <= 101))||(id >= 400)||(sh.find(id) != sh.end())) return;
      Shadow & s = sh[id]; s.id = id; s.sock = withSock; s.cause = 1;
      PSession * ps = new PSession(this, id); AbstractReflectSessionRef ref(ps);
      if ((withSock)&&(policy >= 0)&&(policy <= 1)) {if (policy == 0) ps->SetInputPolicy(pol[0]); else ps->SetOutputPolicy(pol[1]);}
      status_t r;
      if (withSock) {const int fd = eventfd(0, 0); if (fd < 0) Fail("harness", "eventfd failed"); fdOf[id] = fd; r = server->AddNewSession(ref, ConstSocketRef(new Socket(fd, false)));}
               else r = server->AddNewSession(ref);
      if (r.IsError()) Fail("harness", std::string("AddNewSession failed: ") + r());
      sess[id] = ps; st.inc("sessions_added"); if (withSock) st.inc("sessions_with_socket");
   }
   void AddFactory(int id, bool ready)
   {
      if ((id < 200)||(id > 201)||(sh.find(id) != sh.end())) return;
      PFactory * f = new PFactory(this, id, ready); ReflectSessionFactoryRef ref(f);
      uint16 port = 0;
      if (server->PutAcceptFactory(0, ref, localhostIP, &port).IsError()) {st.inc("p.listening_socket_unavailable"); return;}   // (no loopback listener in this sandbox: the factory part is skipped)
      Shadow & s = sh[id]; s.id = id; s.isFactory = true; s.attached = s.everAttached = true; s.cause = 1; facts[id] = f; st.inc("factories_added"); if (!ready) st.inc("p.factory_paused");
   }
   void SetWant(int id, uint64_t t, bool fromCallback)
   {
      auto it = sh.find(id); if (it == sh.end()) return;
      Shadow & s = it->second; s.want = t; if (fromCallback) s.retimedIter = iterNo;
      if (s.isFactory) {auto fi = facts.find(id); if (fi == facts.end()) return; if (s.valid) {s.valid = false; s.cause = 2;} fi->second->Inv(); return;}
      if (s.isPolicy) {if (s.valid) {s.valid = false; s.cause = 2;} static_cast<PPolicy *>(pol[id-100]())->Inv(); return;}
      auto si = sess.find(id); if ((si == sess.end())||(!s.attached)) return;
      if (s.valid) {s.valid = false; s.cause = 2;}
      si->second->Inv();
   }
   void EndSess(int id) {if (id == 0) return; auto si = sess.find(id); if ((si != sess.end())&&(sh[id].attached)) si->second->EndSession();}
   void Iter(int64_t delta)
   {
      const uint64_t before = g_simNowUs; uint64_t target = before+1;
      if ((lastNext != kNever)&&(lastNext < ((uint64_t)1<<56))) {const uint64_t mag = (uint64_t)((delta < 0) ? -delta : delta); target = (delta < 0) ? ((mag > lastNext) ? 0 : (lastNext-mag)) : (lastNext+mag);}
      if (target > before+1) g_simNowUs = target-1;
      iterNo++; sawSelect = false; dueAtWait.clear(); mmPrep = kNever;
      uint64 next = kNever;
      const status_t r = server->ServerProcessLoop(0, &next);
      if (r.IsError()) Fail("server_loop_error", std::string("ServerProcessLoop returned ") + r());
      Check();
      st.inc("loop_iterations");
      if (!sawSelect) {st.inc("p.iteration_without_wait"); lastNext = next; return;}
      // the wake-up time: never later than the minimum over the attached nodes (other components of the server may have earlier timers of their own)
      if (next > mmPrep) Fail("root_time_not_min", "the server loop reported " + TS(next) + " as its next wake-up time but the minimum over the attached nodes' requested times was " + TS(mmPrep) + " when it waited");
      if (next < mmPrep) st.inc("p.wakeup_earlier_than_instrumented_minimum");
      uint64_t ran = 0;
      for (int id : dueAtWait)
      {
         const Shadow & s = sh[id];
         if (s.pulsedIter == iterNo) {ran++; continue;}
         if (!IsAttached(s)) continue;   // left during this very iteration
         if (s.retimedIter == iterNo) {st.inc("p.due_node_retimed_by_callback_before_its_turn"); continue;}   // another node's Pulse() withdrew its time before its turn came
         Fail("due_node_not_pulsed", Desc(s) + " was attached and due (at " + U(tSel) + ") when the server waited, but its Pulse() did not run in that loop iteration");
      }
      if (ran >= 2) st.inc("p.several_nodes_pulsed_in_one_iteration");
      th.u(0x52); th.u(next);
      lastNext = next;
   }
};
H * H::s_cur = NULL;

class StallDataIO : public SimDataIO
{
public:
   StallDataIO(SimStream * in, SimStream * out, const ConstSocketRef & s, uint64 limit) : SimDataIO(in, out, s), _limit(limit) {}
   virtual uint64 GetOutputStallLimit() const {return _limit;}
private:
   uint64 _limit;
};
inline DataIORef PSession::CreateDataIO(const ConstSocketRef & s) {return DataIORef(new StallDataIO(&_in, &_out, s, _h->stallLimit ? _h->stallLimit : MUSCLE_TIME_NEVER));}
inline uint64 PSession::GetPulseTime(const PulseArgs & a) {const uint64 mine = _h->OnQuery(_id, a.GetCallbackTime(), a.GetScheduledTime()); return muscleMin(mine, AbstractReflectSession::GetPulseTime(a));}
inline void PSession::Pulse(const PulseArgs & a) {_h->OnPulse(_id, a.GetCallbackTime(), a.GetScheduledTime()); AbstractReflectSession::Pulse(a);}
inline status_t PSession::AttachedToServer() {const status_t r = AbstractReflectSession::AttachedToServer(); if (r.IsOK()) {Shadow & s = _h->sh[_id]; s.attached = s.everAttached = true;} return r;}
inline void PSession::AboutToDetachFromServer() {Shadow & s = _h->sh[_id]; s.attached = false; s.valid = false; _h->sess.erase(_id); AbstractReflectSession::AboutToDetachFromServer();}
inline void PPolicy::PolicyHolderAdded(const PolicyHolder &) {_h->sh[_id].holders++;}
inline void PPolicy::PolicyHolderRemoved(const PolicyHolder &) {Shadow & s = _h->sh[_id]; if (s.holders > 0) s.holders--;}   // (what the policy last answered stays in force while nobody holds it: it is merely not consulted)
inline uint64 PFactory::GetPulseTime(const PulseArgs & a) {return _h->OnQuery(_id, a.GetCallbackTime(), a.GetScheduledTime());}
inline void PFactory::Pulse(const PulseArgs & a) {_h->OnPulse(_id, a.GetCallbackTime(), a.GetScheduledTime());}
inline uint64 PPolicy::GetPulseTime(const PulseArgs & a) {return _h->OnQuery(_id, a.GetCallbackTime(), a.GetScheduledTime());}
inline void PPolicy::Pulse(const PulseArgs & a) {_h->OnPulse(_id, a.GetCallbackTime(), a.GetScheduledTime());}

inline void Exec(const Plan & plan, RunResult & res)
{
   H h(res);
   {Cfg c0(plan); h.stallLimit = (uint64_t) c0.i("stall", 0);}
   h.AddSession(0, true, -1);   // a permanent session with a socket: the server always has something to wait on
   size_t opIdx = 0;
   for (const std::string & line : plan)
   {
      opIdx++; if (line.compare(0, 4, "cfg ") == 0) continue;
      const std::vector<std::string> t = Split(line); if (t.empty()) continue;
      SetCurOp("C20S op %zu: %.200s", opIdx, line.c_str()); WatchdogArm(0); h.th.s(line);
      if (g_verbose) fprintf(stderr, "op %zu: %s  (clock %llu)\n", opIdx, line.c_str(), (unsigned long long) g_simNowUs);
           if ((t[0] == "sess")&&(t.size() >= 4)) h.AddSession((int) ToI(t[1]), t[2] == "1", (int) ToI(t[3]));
      else if ((t[0] == "fact")&&(t.size() >= 3)) h.AddFactory((int) ToI(t[1]), t[2] == "1");
      else if ((t[0] == "ready")&&(t.size() >= 3)) {auto fi = h.facts.find((int) ToI(t[1])); if (fi != h.facts.end()) {fi->second->_ready = (t[2] == "1"); if (!fi->second->_ready) h.st.inc("p.factory_paused");}}
      else if ((t[0] == "want")&&(t.size() >= 3)) {uint64_t tm; if (h.ParseT(t[2], tm)) h.SetWant((int) ToI(t[1]), tm, false);}
      else if ((t[0] == "period")&&(t.size() >= 3)) {auto it = h.sh.find((int) ToI(t[1])); if (it != h.sh.end()) it->second.period = ToU(t[2]);}
      else if ((t[0] == "inquery")&&(t.size() >= 3)) {auto it = h.sh.find((int) ToI(t[1])); if (it != h.sh.end()) {it->second.inQuery.push_back(std::vector<std::string>(t.begin()+2, t.end())); auto si = h.sess.find((int) ToI(t[1])); if (si != h.sess.end()) si->second->Inv();}}
      else if ((t[0] == "inpulse")&&(t.size() >= 3)) {auto it = h.sh.find((int) ToI(t[1])); if (it != h.sh.end()) it->second.inPulse.push_back(std::vector<std::string>(t.begin()+2, t.end()));}
      else if ((t[0] == "end")&&(t.size() >= 2)) h.EndSess((int) ToI(t[1]));
      else if ((t[0] == "out")&&(t.size() >= 3)) {auto si = h.sess.find((int) ToI(t[1])); if ((si != h.sess.end())&&(h.sh[si->first].sock)) {MessageRef m = GetMessageFromPool(1234); ByteBuffer bb; (void) bb.SetNumBytes((uint32) std::min<uint64_t>(ToU(t[2]), 100000), false); memset(bb.GetBuffer(), 7, bb.GetNumBytes()); (void) m()->AddData("d", B_RAW_TYPE, bb.GetBuffer(), bb.GetNumBytes()); (void) si->second->AddOutgoingMessage(m); h.st.inc("p.output_queued_under_policy");}}
      else if ((t[0] == "block")&&(t.size() >= 3)) h.Block((int) ToI(t[1]), ToI(t[2]) != 0);
      else if ((t[0] == "iter")&&(t.size() >= 2)) h.Iter(ToI(t[1]));
      h.Check();
   }
   WatchdogDisarm();
   res.hash = h.th.h;
   auto get = [&](const char * k) {auto it = res.stats.c.find(k); return (it == res.stats.c.end()) ? (uint64_t) 0 : it->second;};
   res.nontrivial = (get("callbacks") >= 1)&&(get("loop_iterations") >= 2);
   res.simMicros = g_simNowUs - g_simStartUs;
}

}} // namespace vs::c20s
