// sim/props/dgram_worker.cpp -- netsim/dgram worker: C12
#include "c12.h"
#include "../netsim/wraps.h"
using namespace vs;
static muscle::CompleteSetupSystem * g_css = NULL;
static void Warmup()
{
   g_css = new muscle::CompleteSetupSystem;
   muscle::SetConsoleLogLevel(muscle::MUSCLE_LOG_NONE);
   // touch the lazily constructed pools/statics the workloads use (both tunnel types, slave gateway, zlib)
   for (uint64_t s=1; s<=24; s++) {RunResult r; Plan p = c12::Gen(0xC12000+s); try {c12::Exec(p, r);} catch(...) {}}
   WatchdogDisarm();
   if (g_verbose) muscle::SetConsoleLogLevel(muscle::MUSCLE_LOG_TRACE);
}
static void BetweenRuns()
{
   SimClockReset();
   muscle::AbstractObjectRecycler::GlobalFlushAllCachedObjects();
}
static const PropDef kProps[] = {
   {"C12", c12::Gen, c12::Exec, false},
};
int main(int argc, char ** argv)
{
   WorkerDef d = {"netsim/dgram", kProps, (int)(sizeof(kProps)/sizeof(kProps[0])), Warmup, BetweenRuns};
   return WorkerMain(argc, argv, d);
}
