// sim/props/c06.h -- C06: a session can alter only its own subtree, and leaves no trace when it departs (netsim/server)
#pragma once
#include "c04.h"

namespace vs { namespace c06 {

using namespace gen;

// paths / patterns that try to reach outside the sender's own subtree
inline std::string TrespassPath(Rng & r, int hosts)
{
   switch(r.below(12))
   {
      case 0:  return "/h" + I(r.below((uint32_t) hosts)) + "/" + I(r.below(5)) + "/" + Name(r);          // absolute path into (maybe) another session
      case 1:  return "/h" + I(r.below((uint32_t) hosts)) + "/" + I(r.below(5));                          // a session node
      case 2:  return "/h" + I(r.below((uint32_t) hosts));                                                 // a host node
      case 3:  return "../" + I(r.below(5)) + "/" + Name(r);
      case 4:  return "../../h" + I(r.below((uint32_t) hosts)) + "/" + I(r.below(5)) + "/" + Name(r);
      case 5:  return Name(r) + "//" + Name(r);                                                            // empty clause
      case 6:  return Name(r) + "/";
      case 7:  return "/";
      case 8:  return "";
      case 9:  return "*/" + Name(r);                                                                     // wildcard characters are literal in SETDATA paths
      case 10: return "/*/*/" + Name(r);
      default: return "..";
   }
}
inline Plan Gen(uint64_t seed)
{
   gen::ClauseModeScope clauseMode(seed);
   Rng cfg(seed, "config"), wl(seed, "workload"), fl(seed, "faults");
   Plan p;
   const int clients = 2 + (int) cfg.below(4), hosts = 1 + (int) cfg.below(3);
   const bool faultFree = cfg.oneIn(5);
   // partial privileges: in one run in four the server grants every session of ONE host the ban privileges (add-bans and/or remove-bans) but NOT the kick privilege;
   // such a session sending PR_COMMAND_KICK is still "a privileged command code sent without [that] privilege" and must be denied (bans themselves only affect accepts)
   std::string pp; {Rng pr(seed, "partialpriv"); if (pr.oneIn(4)) pp = " pphost=" + I(pr.below((uint32_t) hosts)) + " ppbits=" + I(2 + 2*(int) pr.below(3));}   // bits: 2 = add-bans, 4 = remove-bans, 6 = both
   p.push_back("cfg prop=C06 clients=" + I(clients) + " hosts=" + I(hosts) + " faultfree=" + I(faultFree) + pp);
   // one run in four: every server-side transport has an output stall limit (as TCP sockets do), and some quiescent points are reached over a slow link
   Rng sr(seed, "stall"); const bool stallRun = sr.oneIn(4); if (stallRun) p.push_back("cfg stall=" + U(sr.oneIn(3) ? 3000000ULL : 180000000ULL));
   GenState g(clients, hosts);
   for (int c=0; c<clients; c++) if ((c < 2)||(cfg.pct(75))) GenConnect(p, g, cfg, fl, c, faultFree);
   p.push_back("step 2");
   const int nops = Rng(seed, "longrun").oneIn(20) ? (250 + (int) wl.below(350)) : (10 + (int) wl.below(wl.oneIn(4) ? 70 : 30));
   int sinceQuiesce = 0;
   for (int op=0; op<nops; op++)
   {
      int c = PickUp(g, wl);
      if (c < 0) {c = (int) wl.below((uint32_t) clients); GenConnect(p, g, cfg, fl, c, faultFree); continue;}
      const bool inBatch = wl.oneIn(8);
      const std::string sendPfx = (inBatch ? "bsend " : "send ") + I(c) + " ";
      const uint32_t k = wl.below(100);
      if (k < 18) p.push_back(sendPfx + SetDataCmd(g, wl, wl.oneIn(6) ? "i" : ""));
      else if (k < 26) p.push_back(sendPfx + "setdata " + (wl.oneIn(3) ? "i" : "-") + " " + Esc(TrespassPath(wl, hosts)) + "=" + U(g.val++) + ":1");
      else if (k < 32) p.push_back(sendPfx + RmDataCmd(wl));
      else if (k < 40) p.push_back(sendPfx + "rmdata 0 " + Esc(wl.oneIn(2) ? TrespassPath(wl, hosts) : ("../*/" + Clause(wl))));
      else if (k < 44) p.push_back(sendPfx + "insord " + Esc(wl.oneIn(2) ? TrespassPath(wl, hosts) : Name(wl)) + " - " + U(g.val++));
      else if (k < 48) p.push_back(sendPfx + "reorder " + Esc(wl.oneIn(2) ? TrespassPath(wl, hosts) : (Name(wl) + "/*")) + " " + Esc(wl.oneIn(2) ? "-" : Name(wl)));
      else if (k < 56)
      {
         std::string pat = Pattern(wl, hosts); const std::string norm = match::Normalise(pat); auto ni = g.intentNorm[c].find(norm);
         if ((ni != g.intentNorm[c].end())&&(ni->second != pat)) continue;
         g.intent[c].insert(pat); g.intentNorm[c][norm] = pat;
         p.push_back(sendPfx + "sub " + I(g.opid++) + " 0 " + Esc(pat) + " " + (wl.oneIn(3) ? Filter(wl) : std::string("-")));
      }
      else if (k < 60)
      {
         if (g.intent[c].empty()) continue;
         auto it = g.intent[c].begin(); std::advance(it, wl.below((uint32_t) g.intent[c].size())); const std::string pat = *it; g.intent[c].erase(it);
         p.push_back(sendPfx + "unsub " + I(g.opid++) + " " + Esc(pat));
      }
      else if (k < 66) p.push_back(sendPfx + "priv " + I(wl.below(5)) + " " + Esc(wl.oneIn(2) ? std::string("*") : ("/*/" + I(wl.below(5)))));     // KICK / bans / requires without privilege
      else if ((k < 68)&&(wl.oneIn(2))) {static const char * rf[] = {"!N2G", "!G2N"}; const char * f = rf[wl.below(2)]; if (wl.oneIn(2)) p.push_back(sendPfx + "param " + f + " 1"); if (wl.oneIn(2)) GenPump(p, g, wl); if (wl.pct(70)) p.push_back(sendPfx + "rmparam " + Esc(f));}   /* a flag can only be removed once it has been set as a parameter, so mostly: set, then remove */   // the rarely touched routing-flag parameters, set and removed: none of them may stop subscription updates from reaching the session
      else if (k < 68) p.push_back(sendPfx + "setpriv " + I(wl.oneIn(2) ? -1 : (int) wl.below(8)));                                                   // trying to grant oneself privileges
      else if (k < 70) {if (wl.oneIn(2)) {p.push_back(sendPfx + "unsuball " + I(g.opid++)); g.intent[c].clear();} else p.push_back(sendPfx + "rmparamw " + Esc(wl.oneIn(2) ? "!Mx*" : "?Mx??"));}   // wildcard parameter removal (own parameters only)
      else if (k < 82)
      {
         // departure, however caused: clean close, cut after an arbitrary byte prefix (often right after sending, so the cut lands inside a command), reset on write
         const uint32_t how = wl.below(10);
         if (((how < 2)||(how >= 8))&&(!inBatch)&&(wl.oneIn(4))) p.push_back("send " + I(c) + " param !Dsub 1");   /* a subscriber that pauses its subscriptions and then leaves: its marks must go all the same (only before an immediate departure: a paused client's mirror is, legitimately, stale) */
         if (how < 2) p.push_back("close " + I(c));
         else if (how < 8) {if (wl.pct(70)) p.push_back("send " + I(c) + " " + SetDataCmd(g, wl)); if (wl.oneIn(3)) p.push_back("send " + I(c) + " " + SetDataCmd(g, wl)); p.push_back("cut " + I(c) + " " + U(wl.below(wl.oneIn(2) ? 120 : 4000)));}
         else p.push_back("reset " + I(c));
         g.up[c] = false;
      }
      else if ((k < 87)&&(wl.oneIn(5))) p.push_back("ghost");   /* a connection whose session fails to start up */
      else if (k < 87) {const int n = (int) wl.below((uint32_t) clients); if (!g.up[n]) GenConnect(p, g, cfg, fl, n, faultFree);}
      else if ((k < 91)&&(!faultFree)) {if (fl.oneIn(2)) p.push_back("noread " + I(c) + " " + I(fl.below(2))); else p.push_back("stall " + I(c) + " " + I(fl.below(2)));}
      else GenPump(p, g, wl);
      if ((inBatch)&&(wl.oneIn(2))) p.push_back("bflush " + I(c));
      if (wl.pct(55)) GenPump(p, g, wl);
      if ((++sinceQuiesce >= 8 + (int) wl.below(10))||(wl.oneIn(12))) {for (int i=0; i<clients; i++) if (g.up[i]) p.push_back("bflush " + I(i)); p.push_back(((stallRun)&&(sr.oneIn(2))) ? ("slowq " + I((int) sr.below((uint32_t) clients)) + " " + U(sr.oneIn(2) ? 8 : (16 + sr.below(100))) + " " + I(8 + (int) sr.below(40))) : std::string("quiesce")); sinceQuiesce = 0;}
   }
   for (int i=0; i<clients; i++) if (g.up[i]) p.push_back("bflush " + I(i));
   return p;
}

inline void Exec(const Plan & plan, RunResult & res)
{
   srv::Interp in(plan, res);
   in.sim.orc.isolation = true; in.sim.orc.marks = true; in.sim.orc.mirror = true;   // mirror: "every subscriber of those nodes is told"
   {
      Cfg cfg(plan); const int bits = (int) cfg.i("ppbits", 0) & 6;   // never the kick bit (1), never "all" (priv3)
      if (bits)
      {
         const std::string host = "h" + I(cfg.i("pphost", 0));
         for (int b=1; b<=2; b++) if (bits & (1<<b)) {char key[16]; snprintf(key, sizeof(key), "priv%i", b); (void) in.sim.server->GetCentralState().AddString(key, host.c_str());}
         res.stats.inc("runs_with_partially_privileged_host");
      }
   }
   in.Run();
   const Stats & st = res.stats;
   auto get = [&](const char * k) {auto it = st.c.find(k); return (it == st.c.end()) ? (uint64_t) 0 : it->second;};
   res.nontrivial = (get("sessions_connected") >= 2)&&(get("isolation_checks") >= 3);
   if (Cfg(plan).i("faultfree", 0)) res.stats.inc("runs_fault_free"); else res.stats.inc("runs_with_faults");
}

}} // namespace vs::c06
