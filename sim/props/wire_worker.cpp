// sim/props/wire_worker.cpp -- netsim/wire worker: C03 (and C02)
#include "c03.h"
#include "../netsim/wraps.h"
using namespace vs;
static muscle::CompleteSetupSystem * g_css = NULL;
static void Warmup()
{
   g_css = new muscle::CompleteSetupSystem;
   muscle::SetConsoleLogLevel(muscle::MUSCLE_LOG_NONE);
   // touch the lazily constructed pools/statics the workloads use
   RunResult r; Plan p = c03::Gen(12345); try {c03::Exec(p, r);} catch(...) {}
   if (g_verbose) muscle::SetConsoleLogLevel(muscle::MUSCLE_LOG_TRACE);
}
static void BetweenRuns()
{
   SimClockReset();
   muscle::AbstractObjectRecycler::GlobalFlushAllCachedObjects();
}
static const PropDef kProps[] = {
   {"C03", c03::Gen, c03::Exec, false},
};
int main(int argc, char ** argv)
{
   WorkerDef d = {"netsim/wire", kProps, (int)(sizeof(kProps)/sizeof(kProps[0])), Warmup, BetweenRuns};
   return WorkerMain(argc, argv, d);
}
