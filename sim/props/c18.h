// sim/props/c18.h -- C18: the reader/writer mutex excludes correctly and never strands a compliant thread (thrsim)
#pragma once
#include <map>
#include "system/SetupSystem.h"
#include "system/ReaderWriterMutex.h"
#include "syslog/SysLog.h"
#include "../thrsim/sched.h"

namespace vs { namespace thrc {   // pieces shared by the thrsim properties

// scheduler configuration <-> cfg line
inline std::string SchedCfgStr(Rng & r)
{
   const int strategy = (int) r.below(10) < 6 ? 0 : ((int) r.below(2) ? 1 : 2);
   static const int ps[] = {2, 5, 10, 20, 35, 50};
   return " strategy=" + I(strategy) + " pswitch=" + I(ps[r.below(6)]) + " pctd=" + I(1 + r.below(3)) + " pcts=" + I(50 + r.below(400)) + " pto=" + I(r.oneIn(4) ? 0 : (1 + r.below(10))) + " schedseed=" + U(r.u64() & 0xffffffffffffULL)
        + " realcv=" + I(r.oneIn(3) ? 1 : 0) + " pspcv=" + I(r.oneIn(2) ? 0 : (1 + r.below(8))) + " peintr=" + I(r.oneIn(3) ? (1 + r.below(5)) : 0);
}
inline thr::SchedConfig SchedCfgFrom(const Cfg & cfg)
{
   thr::SchedConfig sc;
   sc.strategy = (int) cfg.i("strategy", 0); sc.pSwitchPct = (int) cfg.i("pswitch", 30); sc.pctDepth = (int) cfg.i("pctd", 2); sc.pctSteps = (int) cfg.i("pcts", 300);
   sc.pTimeoutPct = (int) cfg.i("pto", 5); sc.schedSeed = (uint64_t) cfg.i("schedseed", 1); sc.stepCap = (uint64_t) cfg.i("stepcap", 40000);
   sc.realCv = (cfg.i("realcv", 0) != 0); sc.pSpuriousCvPct = (int) cfg.i("pspcv", 0); sc.pEintrPct = (int) cfg.i("peintr", 0);
   sc.pOomPermille = (int) cfg.i("poom", 0);
   return sc;
}
inline void FillSchedStats(RunResult & res)
{
   const thr::SchedStats & s = thr::Stats();
   res.stats.inc("sched_decisions", s.steps); res.stats.inc("context_switches", s.switches); res.stats.inc("f.preempt", s.preemptions); res.stats.inc("f.timeout_fires", s.timeoutsFired);
   res.stats.inc("f.spurious_poll_wake", s.spuriousPolls); res.stats.inc("clock_advances", s.clockAdvances); res.stats.max("max.threads", s.maxThreads);
   if (s.preemptions <= 2) res.stats.inc("p.low_preemption_schedule");
   res.stats.inc("cv_waits_real_condition_variable_code", s.cvWaits); res.stats.inc("cv_signals", s.cvSignals); res.stats.inc("f.spurious_condvar_wake", s.cvSpurious); res.stats.inc("f.eintr", s.eintrs); res.stats.inc("f.allocation_failure", s.ooms); res.stats.inc("p.cv_signal_without_waiter", s.cvSignalsNoWaiter);
   res.hash = thr::DecisionHash();
   res.simMicros = thr::Now() - 1000000;
}
// program lines: "prog <t> <op> <op> ..." -> per-thread op lists
inline std::map<int, std::vector<std::string> > Programs(const Plan & plan)
{
   std::map<int, std::vector<std::string> > p;
   for (auto & l : plan) {std::vector<std::string> t = Split(l); if ((t.size() >= 2)&&(t[0] == "prog")) {std::vector<std::string> & v = p[(int) ToI(t[1])]; for (size_t i=2; i<t.size(); i++) v.push_back(t[i]);}}
   return p;
}

}} // namespace vs::thrc

namespace vs { namespace c18 {

using namespace muscle;

// Program ops:  R W = blocking acquire (read / write);  TR TW = try;  DR<d> DW<d> = timed with deadline now+d;  r w = release;  Y = yield inside the critical section
inline Plan Gen(uint64_t seed)
{
   Rng cfg(seed, "config"), wl(seed, "workload");
   Plan p;
   const int threads = 2 + (int) cfg.below(3);
   // one run in twelve: a crowd.  One thread holds the write lock while eight or more readers queue up behind it; when it lets go they all register as holders at once, which is when
   // the lock's tables of executing threads outgrow their initial seven slots -- and, in these runs, when an allocation may fail (poom, per thousand; only inside acquire calls).
   // An acquire that fails for lack of memory must leave the lock as it was; everybody else must still get the lock.  A last writer arrives after the crowd has gone.
   Rng cr(seed, "crowd");
   if (cr.oneIn(12))
   {
      const int readers = 8 + (int) cr.below(3);
      p.push_back("cfg prop=C18 prefer=" + I(cfg.below(2)) + " threads=" + I(readers+2) + thrc::SchedCfgStr(cfg) + " poom=" + I(cr.oneIn(4) ? 0 : (50 + (int) cr.below(400))));
      // (the writer opens a gate once it has the lock -- or has failed to get it -- and lets go only when every reader has queued up or failed; the readers hold on for a while)
      {std::string s = "prog 0 W GO GP" + I(cr.oneIn(5) ? (int)(1 + cr.below((uint32_t) readers)) : readers) + " w"; if (!cr.oneIn(3)) s += std::string(cr.oneIn(2) ? " Y" : "") + " W Y w"; p.push_back(s);}
      for (int t=1; t<=readers; t++) {std::string s = "prog " + I(t) + " GW R"; const int ny = 2 + (int) cr.below(10); for (int i=0; i<ny; i++) s += " Y"; s += " r"; p.push_back(s);}
      {std::string s = "prog " + I(readers+1) + " GW"; const int ny = 2 + (int) cr.below(12); for (int i=0; i<ny; i++) s += " Y"; s += cr.oneIn(3) ? " DW100000 Y w" : " W Y w"; p.push_back(s);}
      return p;
   }
   p.push_back("cfg prop=C18 prefer=" + I(cfg.below(2)) + " threads=" + I(threads) + thrc::SchedCfgStr(cfg));
   const bool small = cfg.oneIn(3);   // the smallest programs get near-systematic schedule coverage
   for (int t=0; t<threads; t++)
   {
      std::string s = "prog " + I(t);
      std::vector<char> held;   // LIFO of held modes
      const int nops = small ? (2 + (int) wl.below(2)) : (2 + (int) wl.below(7));
      for (int i=0; i<nops; i++)
      {
         const uint32_t k = wl.below(100);
         if ((k < 45)||(held.empty()))
         {
            // acquire (possibly recursive, possibly an upgrade from read to write)
            const bool write = wl.pct(45);
            const uint32_t form = wl.below(10);
            std::string op = write ? "W" : "R";
            if (form < 2) op = "T" + op; else if (form < 5) {static const int ds[] = {0, 1, 50, 500, 100000}; op = "D" + op + I(ds[wl.below(5)]);}
            s += " " + op; held.push_back(write ? 'w' : 'r');
            if (wl.pct(60)) s += " Y";
         }
         else if (k < 90)
         {
            // usually LIFO; sometimes any held entry (e.g. the write lock released while a recursive read lock is kept: a downgrade)
            const size_t at = wl.pct(70) ? (held.size()-1) : wl.below((uint32_t) held.size());
            s += std::string(" ") + held[at]; held.erase(held.begin()+(long) at);
         }
         else if (k < 95) s += " Y";
         else s += wl.oneIn(2) ? " ur" : " uw";   // deliberately unmatched unlock (only meaningful when nothing of that mode is held; the interpreter decides)
      }
      while(!held.empty()) {s += std::string(" ") + held.back(); held.pop_back();}
      p.push_back(s);
   }
   return p;
}

// ---------------------------------------------------------------- shadow lock table (updated in scheduler-atomic steps: no hook point between the real call's return and the update)
struct Shadow {int reads = 0, writes = 0; bool inUpgrade = false; int suspendedReads = 0;};
static std::vector<Shadow> g_shadow;
static std::string Invariant(std::string & cls)
{
   int writers = 0, writerTid = -1;
   for (size_t t=0; t<g_shadow.size(); t++) if (g_shadow[t].writes > 0) {writers++; writerTid = (int) t;}
   if (writers > 1) {cls = "two_writers"; return "two threads hold the lock for writing at the same instant";}
   if (writers == 1) for (size_t t=0; t<g_shadow.size(); t++) if (((int) t != writerTid)&&(g_shadow[t].reads > 0)) {cls = "writer_with_reader"; return "t" + I(writerTid) + " holds the lock for writing while t" + I((int) t) + " holds it for reading";}
   return std::string();
}

struct Ctx
{
   ReaderWriterMutex * rw; bool prefer;
   volatile int done = 0;
   int nprogs = 0; volatile bool gateOpen = false; volatile int failedAcquires = 0, failedAtGate = 0;
   // writer preference bookkeeping: order in which blocking acquires BEGAN (harness sequence numbers) and were granted
   uint64_t seq = 0;
   struct Waiting {int tid; bool write; uint64_t began; bool upgrade;}; std::vector<Waiting> waiting;
};

inline void RunProgram(Ctx & cx, int t, const std::vector<std::string> & ops, RunResult & res)
{
   Shadow & me = g_shadow[(size_t) t];
   std::vector<char> held;   // what this thread really holds, LIFO
   auto Acquire = [&](bool write, uint64_t deadline /* MUSCLE_TIME_NEVER = blocking, 0 = try */)
   {
      const bool timed = (deadline != MUSCLE_TIME_NEVER);
      const bool upgrade = (write)&&(me.writes == 0)&&(me.reads > 0);
      const Shadow before = me;
      if (timed) thr::EnterTimedCall(deadline, upgrade ? "upgrade" : "call");
      if (upgrade) {me.inUpgrade = true; me.suspendedReads = me.reads; me.reads = 0; res.stats.inc("p.upgrade_attempt"); bool others = false; for (size_t o=0; o<g_shadow.size(); o++) if (((int) o != t)&&(g_shadow[o].reads > 0)) others = true; if (others) res.stats.inc("p.upgrade_with_other_readers");}
      // writer preference: a plain reader (holding nothing) that begins after a writer is already parked waiting must not be granted before it
      std::vector<std::pair<int,uint64_t> > writersWaitingBefore;   // (thread, sequence number of that particular acquire)
      const bool plainReader = (!write)&&(before.reads == 0)&&(before.writes == 0);
      if ((cx.prefer)&&(plainReader)) for (auto & w : cx.waiting) if ((w.write)&&(!w.upgrade)&&(thr::StateOf(w.tid) == thr::ST_BL_COND)) writersWaitingBefore.push_back(std::make_pair(w.tid, w.began));   // (an upgrading thread may be parked re-taking its read locks: not counted)
      Ctx::Waiting wme = {t, write, ++cx.seq, upgrade}; cx.waiting.push_back(wme);
      const uint32_t ooms0 = thr::OomsInjected(); thr::OomWindow(true);
      const status_t r = write ? cx.rw->LockReadWrite(deadline) : cx.rw->LockReadOnly(deadline);
      thr::OomWindow(false); const bool oomHit = (thr::OomsInjected() > ooms0);
      // ---- scheduler-atomic from here to the end of this lambda (no hook point)
      for (size_t i=0; i<cx.waiting.size(); i++) if (cx.waiting[i].tid == t) {cx.waiting.erase(cx.waiting.begin()+(long) i); break;}
      if (timed) thr::LeaveTimedCall();
      if (upgrade) {me.reads = me.suspendedReads; me.suspendedReads = 0; me.inUpgrade = false;}
      if (r.IsOK())
      {
         if (write) me.writes++; else me.reads++;
         held.push_back(write ? 'w' : 'r');
         res.stats.inc(write ? "acquired_write" : "acquired_read");
         if (upgrade) res.stats.inc("p.upgrade_succeeded");
         if ((before.reads + before.writes) > 0) res.stats.inc("p.recursive_acquire");
         for (auto & wb : writersWaitingBefore) for (auto & w : cx.waiting) if ((w.tid == wb.first)&&(w.began == wb.second)&&(w.write)&&(!w.upgrade)&&(thr::StateOf(w.tid) == thr::ST_BL_COND))
            thr::ReportAndExit("reader_overtook_waiting_writer", "writer preference is on, t" + I(wb.first) + " was already parked waiting for the write lock when t" + I(t) + " began its read acquire, yet the reader was granted first");
      }
      else
      {
         cx.failedAcquires++;
         if ((oomHit)&&(r == B_OUT_OF_MEMORY)) res.stats.inc("p.acquire_failed_for_lack_of_memory");   // (legitimate: the lock must then be as it was, which the invariant and the rest of the run check)
         else if (!timed) thr::ReportAndExit("blocking_acquire_failed", std::string("an untimed ") + (write ? "LockReadWrite" : "LockReadOnly") + " returned " + r());
         res.stats.inc("p.timed_or_try_failed");
         if (upgrade) res.stats.inc("p.upgrade_failed");
      }
      std::string cls; const std::string bad = Invariant(cls);
      if (!bad.empty()) thr::ReportAndExit(cls, bad + " (right after " + (write ? "a write" : "a read") + " acquire by t" + I(t) + (upgrade ? ", a read-to-write upgrade, returned " : " returned ") + r() + ")");
   };
   auto Release = [&](bool write, bool expectHeld)
   {
      const bool reallyHeld = write ? (me.writes > 0) : (me.reads > 0);
      if ((expectHeld)&&(!reallyHeld)) return;   // (an acquire earlier in the program timed out)
      // the shadow entry is withdrawn BEFORE the real release (the lock is still held while the call runs)
      if (reallyHeld) {if (write) me.writes--; else me.reads--;}
      const status_t r = write ? cx.rw->UnlockReadWrite() : cx.rw->UnlockReadOnly();
      if (reallyHeld)
      {
         if (r.IsError()) thr::ReportAndExit("matched_unlock_failed", std::string(write ? "UnlockReadWrite" : "UnlockReadOnly") + " of a held lock returned " + r());
         for (size_t i=held.size(); i>0; i--) if (held[i-1] == (write ? 'w' : 'r')) {held.erase(held.begin()+(long)(i-1)); break;}
      }
      else
      {
         res.stats.inc("p.unmatched_unlock");
         if (r.IsOK()) thr::ReportAndExit("unmatched_unlock_succeeded", std::string(write ? "UnlockReadWrite" : "UnlockReadOnly") + " succeeded although t" + I(t) + " does not hold the lock in that mode");
      }
   };
   for (const std::string & op : ops)
   {
      if (op == "Y") thr::Yield();
      // gates (crowd runs): GO opens the gate; GW waits for it; GP<n>, for a thread that holds the write lock, waits until n acquires that began after the gate opened are either parked on the lock or have failed
      else if (op == "GO") {cx.gateOpen = true; cx.failedAtGate = cx.failedAcquires;}
      else if (op == "GW") thr::WaitUntil([&cx]() {return cx.gateOpen;});
      else if ((op.size() > 2)&&(op[0] == 'G')&&(op[1] == 'P'))
      {
         const int n = (int) ToI(op.substr(2));
         if (me.writes > 0) thr::WaitUntil([&cx, n]() {int parked = 0; for (auto & w : cx.waiting) if (thr::IsAsleep(w.tid)) parked++; return ((parked + (cx.failedAcquires - cx.failedAtGate)) >= n)||(parked + cx.done + 1 >= cx.nprogs);});   // (or nobody is left who could still queue up: keeps hand-edited and minimised plans from waiting for ever)
      }
      else if (op == "R") Acquire(false, MUSCLE_TIME_NEVER);
      else if (op == "W") Acquire(true, MUSCLE_TIME_NEVER);
      else if (op == "TR") Acquire(false, 0);
      else if (op == "TW") Acquire(true, 0);
      else if ((op.size() > 2)&&(op[0] == 'D')) {const uint64_t d = ToU(op.substr(2)); Acquire(op[1] == 'W', (d == 0) ? 0 : (thr::Now() + d));}
      else if (op == "r") Release(false, true);
      else if (op == "w") Release(true, true);
      else if (op == "ur") {if (me.reads == 0) Release(false, false);}
      else if (op == "uw") {if (me.writes == 0) Release(true, false);}
   }
   // every holder eventually releases
   while(!held.empty()) {const char h = held.back(); Release(h == 'w', true); if ((!held.empty())&&(held.back() == h)&&((h == 'w') ? (me.writes == 0) : (me.reads == 0))) held.pop_back();}
   cx.done++;
}

inline void Exec(const Plan & plan, RunResult & res)
{
   Cfg cfg(plan);
   std::map<int, std::vector<std::string> > progs = thrc::Programs(plan);
   if (progs.empty()) {res.hash = 1; return;}
   int maxT = 0; for (auto & kv : progs) if (kv.first > maxT) maxT = kv.first;
   SetCurOp("C18 run (%d threads)", (int) progs.size()); WatchdogArm(0);
   Ctx cx; cx.prefer = (cfg.i("prefer", 1) != 0);
   ReaderWriterMutex rw(cx.prefer); cx.rw = &rw;
   thr::Begin(thrc::SchedCfgFrom(cfg));
   g_shadow.assign((size_t) maxT + 2, Shadow());   // index = scheduler thread id (main = 0, program k = k+1)
   thr::SetInvariant(Invariant);
   int k = 0; cx.nprogs = (int) progs.size();
   {bool anyGo = false; for (auto & kv : progs) for (auto & o : kv.second) if (o == "GO") anyGo = true; if (!anyGo) cx.gateOpen = true;}   // (a plan without GO -- minimised, hand-edited -- has its gate open)
   for (auto & kv : progs) {const int tid = ++k; const std::vector<std::string> ops = kv.second; thr::Spawn([&cx, tid, ops, &res]() {RunProgram(cx, tid, ops, res);});}
   thr::WaitForAll();
   // afterwards an uncontended writer must succeed at once: no phantom entry may remain
   {
      const status_t r = rw.TryLockReadWrite();
      if (r.IsError()) thr::ReportAndExit("phantom_lock_entry", std::string("after every thread released everything, TryLockReadWrite() returned ") + r());
      (void) rw.UnlockReadWrite();
   }
   thr::SetInvariant(NULL);
   thrc::FillSchedStats(res);
   thr::End();
   WatchdogDisarm();
   res.stats.inc(cx.prefer ? "runs_prefer_writers" : "runs_no_preference");
   res.nontrivial = (thr::Stats().switches >= 1)&&(progs.size() >= 2);
}

}} // namespace vs::c18
