// sim/props/c20.h -- C20: pulse callbacks fire for every due node and never before their time (netsim/pulse)
//
// A harness PulseNodeManager drives a forest of instrumented PulseNodes (1..3 manager-level roots, like ReflectServer's
// sessions/factories/itself) under the simulated clock with ReflectServer's protocol: recalculate, "sleep", pulse.
// The oracle is a shadow map  node -> (requested time, in force?)  fed ONLY by what the instrumented GetPulseTime()
// overrides returned and by the operations the harness itself issued; it never reads the library's private state.
#pragma once
#include <set>
#include <string>
#include <vector>
#include <algorithm>
#include "system/SetupSystem.h"
#include "util/PulseNode.h"
#include "util/TimeUtilityFunctions.h"
#include "syslog/SysLog.h"
#include "../core/core.h"
#include "../netsim/wraps.h"

namespace vs { namespace c20 {

using namespace muscle;

static const uint64_t kNever    = MUSCLE_TIME_NEVER;
static const int      kMaxId    = 95;              // node ids are 0..kMaxId; anything else in a plan line is ignored
static const uint64_t kClockCap = 1ULL << 56;      // the simulated clock is never moved beyond this (times above it are legal requests, but nobody waits for them)

inline uint64_t SatAdd(uint64_t a, uint64_t b) {return (a > (kNever-1)-b) ? (kNever-1) : (a+b);}

// time token: "never" | absolute micros ("0" = long past) | "+d" / "-d" relative to the simulated clock at execution
inline bool ParseTime(const std::string & s, uint64_t now, uint64_t & out)
{
   if (s.empty()) return false;
   if (s == "never") {out = kNever; return true;}
   if (s[0] == '+') {if (s.size() < 2) return false; out = SatAdd(now, ToU(s.substr(1))); return true;}
   if (s[0] == '-') {if (s.size() < 2) return false; const uint64_t d = ToU(s.substr(1)); out = (d >= now) ? 0 : (now-d); return true;}
   if ((s[0] < '0')||(s[0] > '9')) return false;
   out = ToU(s); return true;
}
inline std::string TimeStr(uint64_t t) {return (t == kNever) ? std::string("never") : U(t);}

// ----------------------------------------------------------------------------------------------- plan generation
// cfg prop=C20 roots=<1..3> nodes=<cap> depth=<cap> faults=<e|l|j|-...> span=<us> cb=<pct> tie=<pct> rel=<pct>
// node n p            create node n; attach it under p (p = -1 or a node that does not exist: leave it unattached)
// attach n p          p.PutPulseChild(n)  (re-parents; skipped if n is a root, p lies inside n's subtree, or either is missing)
// detach n            parent(n).RemovePulseChild(n)
// destroy n           delete n (its children become unattached)
// want n t [k]        n will answer t from GetPulseTime(); n.InvalidatePulseTime(clearPrevResult = !k)
// invalidate n [k]    n.InvalidatePulseTime() without changing the answer
// wantq n t           n will answer t the next time it is asked, but nobody is told (the old time stays in force)
// period n d          after each Pulse() n asks for callbackTime+d  (d = 0: back to one-shot, i.e. "never" once satisfied)
// incb n <op...>      register want/invalidate/wantq/attach/detach to be performed from inside n's next Pulse() callback
// inq n <op...>       register want/invalidate/wantq on a strict descendant of n, or attach of an unattached node below n, to be performed from inside
//                      n's next GetPulseTime() callback during the regular (first) recalculation of a wake ("including from inside callbacks")
// wake d              recalculate; move the clock so that the first pulse instant is (reported next time + d); pulse
// jump dt             clock_jump fault: the simulated clock leaps forward by dt
struct GNode {bool alive; int parent; uint64_t w; uint64_t period; std::vector<std::vector<std::string> > cb; GNode() : alive(false), parent(-1), w(kNever), period(0) {}};
struct GenState
{
   std::vector<GNode> g; int roots; int hi; uint64_t estNow;   // hi: ids 0..hi-1 have been handed out
   GenState() : g((size_t) kMaxId+1), roots(1), hi(1), estNow(1000000) {}
   bool IsRoot(int n) const {return n < roots;}
   int Depth(int n) const {int d = 0; while(g[(size_t)n].parent >= 0) {n = g[(size_t)n].parent; d++;} return d;}
   int Top(int n) const {while(g[(size_t)n].parent >= 0) n = g[(size_t)n].parent; return n;}
   bool Attached(int n) const {return IsRoot(Top(n));}
   bool InSubtree(int n, int top) const {while(n >= 0) {if (n == top) return true; n = g[(size_t)n].parent;} return false;}   // n == top or below it
   int Height(int n) const {int h = 0; for (int i=0; i<hi; i++) if ((g[(size_t)i].alive)&&(i != n)&&(InSubtree(i, n))) h = std::max(h, Depth(i)-Depth(n)); return h;}
   std::vector<int> Alive(bool nonRootOnly) const {std::vector<int> v; for (int i=0; i<hi; i++) if ((g[(size_t)i].alive)&&((!nonRootOnly)||(!IsRoot(i)))) v.push_back(i); return v;}
   int NumAlive() const {int c = 0; for (int i=0; i<hi; i++) if (g[(size_t)i].alive) c++; return c;}
   void Detach(int n) {g[(size_t)n].parent = -1;}
   void Destroy(int n) {for (int i=0; i<hi; i++) {GNode & x = g[(size_t)i]; if ((x.alive)&&(x.parent == n)) x.parent = -1;} g[(size_t)n] = GNode();}
   // (rough) effect of an op performed from inside c's callback; same legality rules as the executor
   void ApplyCb(int c, const std::vector<std::string> & t)
   {
      if (t.size() < 2) return;
      const int n = (int) ToI(t[1]); if ((n < 0)||(n > kMaxId)||(!g[(size_t)n].alive)) return;
      uint64_t tm;
      if (((t[0] == "want")||(t[0] == "wantq"))&&(t.size() >= 3)) {if (ParseTime(t[2], estNow, tm)) g[(size_t)n].w = tm;}
      else if ((t[0] == "attach")&&(t.size() >= 3))
      {
         const int p = (int) ToI(t[2]); if ((p < 0)||(p > kMaxId)||(!g[(size_t)p].alive)||(IsRoot(n))||(InSubtree(p, n))||(InSubtree(c, n))) return;
         g[(size_t)n].parent = p;
      }
      else if (t[0] == "detach") {if ((!IsRoot(n))&&(!InSubtree(c, n))) g[(size_t)n].parent = -1;}
   }
};

inline Plan Gen(uint64_t seed)
{
   Rng cfg(seed, "config"), wl(seed, "workload"), fl(seed, "faults");
   Plan p; GenState s;
   s.roots = cfg.pct(60) ? 1 : (cfg.pct(60) ? 2 : 3);
   static const int nodeCaps[] = {1, 2, 3, 5, 8, 13, 20, 30};
   const int maxNodes = std::max(s.roots, nodeCaps[cfg.below(8)]);
   const int maxDepth = 1 + (int) cfg.below(5);
   static const int opCaps[] = {12, 30, 60, 120, 196};
   const int nops = 4 + (int) cfg.below((uint32_t) opCaps[cfg.below(5)]);
   const bool faultFree = cfg.oneIn(4);   // one run in four: the manager always wakes exactly at the reported time, no clock jumps
   const bool fEarly = (!cfg.oneIn(3))&&(!faultFree), fLate = (!cfg.oneIn(3))&&(!faultFree), fJump = (!cfg.oneIn(3))&&(!faultFree);
   static const uint64_t spans[] = {3, 25, 1000, 100000, 20000000};
   const uint64_t span = spans[cfg.below(5)];
   const int cbPct = cfg.oneIn(3) ? 0 : (4 + (int) cfg.below(20));   // a third of the runs have no in-callback operations at all (strict oracle everywhere)
   static const int ties[] = {0, 10, 30, 60};   const int tiePct = ties[cfg.below(4)];
   static const int rels[] = {0, 25, 60};       const int relPct = rels[cfg.below(3)];
   static const int pers[] = {0, 10, 40};       const int perPct = pers[cfg.below(3)];
   p.push_back("cfg prop=C20 roots=" + I(s.roots) + " nodes=" + I(maxNodes) + " depth=" + I(maxDepth) + " faults=" + std::string(faultFree ? "-" : "") + (fEarly ? "e" : "") + (fLate ? "l" : "") + (fJump ? "j" : "")
               + " span=" + U(span) + " cb=" + I(cbPct) + " tie=" + I(tiePct) + " rel=" + I(relPct) + " per=" + I(perPct));
   for (int r=0; r<s.roots; r++) s.g[(size_t)r].alive = true;
   s.hi = s.roots;

   int nextId = s.roots;
   auto genTime = [&](Rng & r, uint64_t & est) -> std::string
   {
      if (r.pct(9)) {est = kNever; return "never";}
      if (r.pct(tiePct))
      {
         std::vector<uint64_t> have; for (int i=0; i<s.hi; i++) {const GNode & x = s.g[(size_t)i]; if ((x.alive)&&(x.w != kNever)) have.push_back(x.w);}
         if (!have.empty()) {est = r.pick(have); return U(est);}
      }
      if (r.pct(relPct))
      {
         const uint32_t c = r.below(10);
         if (c == 0) {const uint64_t d = 1 + r.below((uint32_t) span); est = s.estNow - std::min(d, s.estNow); return "-" + U(d);}
         if (c <= 2) {est = s.estNow; return "+0";}
         const uint64_t d = 1 + r.below((uint32_t) span); est = s.estNow + d; return "+" + U(d);
      }
      const uint32_t c = r.below(16);
      if (c == 0) {est = 0; return "0";}                                                                      // long past
      if (c == 1) {est = s.estNow - std::min<uint64_t>(s.estNow, 1 + r.below((uint32_t) span)); return U(est);}   // recent past
      if (c == 2) {est = s.estNow; return U(est);}                                                            // (about) now
      if (c == 3) {est = s.estNow + 3600000000ULL*(1 + r.below(48)); return U(est);}                          // hours..days ahead
      if (c == 4) {est = (1ULL << 60) + r.below(4); return U(est);}                                           // finite but beyond anything the clock reaches
      est = s.estNow + 1 + r.below((uint32_t) span); return U(est);
   };
   auto pickParent = [&](Rng & r, int forNode, int height) -> int
   {
      std::vector<int> c;
      for (int i=0; i<s.hi; i++) if ((s.g[(size_t)i].alive)&&(i != forNode)&&((forNode < 0)||(!s.InSubtree(i, forNode)))&&(s.Depth(i)+1+height <= maxDepth)) c.push_back(i);
      return c.empty() ? -1 : r.pick(c);
   };
   auto newNode = [&](Rng & r) -> bool
   {
      if ((nextId > kMaxId)||(s.NumAlive() >= maxNodes)) return false;
      const int n = nextId++; s.hi = nextId;
      const int par = r.pct(82) ? pickParent(r, -1, 0) : -1;
      s.g[(size_t)n].alive = true; s.g[(size_t)n].parent = par;
      p.push_back("node " + I(n) + " " + I(par));
      return true;
   };
   auto doWant = [&](Rng & r, int n)
   {
      uint64_t est; const std::string tt = genTime(r, est); s.g[(size_t)n].w = est;
      p.push_back("want " + I(n) + " " + tt + (r.oneIn(6) ? " k" : ""));
   };
   auto cbOp = [&](Rng & r) -> std::vector<std::string>   // an operation to be performed from inside a callback
   {
      std::vector<std::string> t; const std::vector<int> all = s.Alive(false), nr = s.Alive(true);
      const uint32_t c = r.below(10);
      if ((c <= 5)||(nr.empty())) {uint64_t est; const int m = r.pick(all); const std::string tt = genTime(r, est); t.push_back("want"); t.push_back(I(m)); t.push_back(tt); if (r.oneIn(6)) t.push_back("k");}
      else if (c == 6) {t.push_back("invalidate"); t.push_back(I(r.pick(all)));}
      else if (c == 7) {uint64_t est; const int m = r.pick(all); const std::string tt = genTime(r, est); t.push_back("wantq"); t.push_back(I(m)); t.push_back(tt);}
      else if (c == 8) {const int m = r.pick(nr); const int par = pickParent(r, m, s.Height(m)); if (par >= 0) {t.push_back("attach"); t.push_back(I(m)); t.push_back(I(par));} else {t.push_back("detach"); t.push_back(I(m));}}
      else {t.push_back("detach"); t.push_back(I(r.pick(nr)));}
      return t;
   };

   // initial forest and requests
   {
      const int initial = (int) wl.below((uint32_t)(maxNodes - s.roots + 1));
      for (int i=0; i<initial; i++) (void) newNode(wl);
      for (int n : s.Alive(false)) {if (wl.pct(70)) doWant(wl, n); if (wl.pct(perPct)) {const uint64_t d = 1 + wl.below((uint32_t) span); s.g[(size_t)n].period = d; p.push_back("period " + I(n) + " " + U(d));}}
   }

   auto attachedList = [&]() -> std::vector<int> {std::vector<int> v; for (int i=0; i<s.hi; i++) if ((s.g[(size_t)i].alive)&&(s.Attached(i))) v.push_back(i); return v;};
   auto pushIncb = [&](int n, const std::vector<std::string> & t)
   {
      s.g[(size_t)n].cb.push_back(t);
      std::string l = "incb " + I(n); for (auto & x : t) l += " " + x;
      p.push_back(l);
   };
   // wake: pick the manager's (mis)behaviour from the fault stream, then estimate what fires
   auto doWake = [&](int forceLate)
   {
      int64_t delta = 0;
      {
         const uint32_t f = fl.below(100);
         if ((fEarly)&&(f < 22)&&(forceLate == 0)) delta = fl.pct(40) ? -1 : -(int64_t)(1 + fl.below((uint32_t) std::min<uint64_t>(span*2, 100000)));
         else if ((fLate)&&(((f >= 22)&&(f < 50))||(forceLate > 0))) delta = fl.pct(25) ? 1 : (fl.pct(15) ? (int64_t)(1000000 + fl.below(1000000000)) : (int64_t)(1 + fl.below((uint32_t)(span*3))));
      }
      p.push_back("wake " + I(delta));
      const std::vector<int> att = attachedList();
      uint64_t m = kNever; for (int n : att) if (s.g[(size_t)n].w < m) m = s.g[(size_t)n].w;
      const uint64_t mag = (uint64_t)((delta < 0) ? -delta : delta);
      if ((m == kNever)||(m >= kClockCap)) s.estNow += 1 + mag;
      else {const uint64_t target = (delta < 0) ? ((mag > m) ? 0 : (m-mag)) : (m+mag); s.estNow = std::max(s.estNow+2, target);}
      std::vector<int> fired; for (int n : att) if (s.g[(size_t)n].w <= s.estNow) fired.push_back(n);
      for (int n : fired) {GNode & x = s.g[(size_t)n]; x.w = x.period ? (s.estNow + x.period) : kNever;}
      for (int n : fired) {GNode & x = s.g[(size_t)n]; if (x.alive) {std::vector<std::vector<std::string> > ops; ops.swap(x.cb); for (auto & t : ops) s.ApplyCb(n, t);}}
      s.estNow += 2 + (uint64_t) s.roots;
   };

   for (int op=0; op<nops; op++)
   {
      const std::vector<int> all = s.Alive(false), nr = s.Alive(true);
      int c = (int) wl.below((uint32_t)(92 + cbPct));
      enum {WAKE, WANT, WANTQ, INVAL, NODE, ATTACH, DETACH, DESTROY, PERIOD, JUMP, BURST, INCB} kind;
           if ((c -= 30) < 0) kind = WAKE;
      else if ((c -= 24) < 0) kind = WANT;
      else if ((c -= 3)  < 0) kind = WANTQ;
      else if ((c -= 3)  < 0) kind = INVAL;
      else if ((c -= 7)  < 0) kind = NODE;
      else if ((c -= 7)  < 0) kind = ATTACH;
      else if ((c -= 5)  < 0) kind = DETACH;
      else if ((c -= 2)  < 0) kind = DESTROY;
      else if ((c -= 3)  < 0) kind = PERIOD;
      else if ((c -= 3)  < 0) kind = JUMP;
      else if ((c -= 5)  < 0) kind = BURST;
      else kind = INCB;

      if ((kind == NODE)&&(newNode(wl))) continue;
      if ((kind == JUMP)&&(fJump))
      {
         static const uint64_t jumps[] = {1000000ULL, 60000000ULL, 3600000000ULL, 86400000000ULL, 259200000000ULL};
         const uint64_t dt = jumps[fl.below(5)]*(1 + fl.below(3)) + fl.below(1000);
         s.estNow += dt; p.push_back("jump " + U(dt)); continue;
      }
      if (kind == WANT)   {doWant(wl, wl.pick(all)); continue;}
      if (kind == WANTQ)  {uint64_t est; const int n = wl.pick(all); const std::string tt = genTime(wl, est); p.push_back("wantq " + I(n) + " " + tt); continue;}   // (estimate keeps the time in force)
      if (kind == INVAL)  {p.push_back("invalidate " + I(wl.pick(all)) + (wl.oneIn(3) ? " k" : "")); continue;}
      if (kind == PERIOD) {const int n = wl.pick(all); const uint64_t d = wl.oneIn(4) ? 0 : (1 + wl.below((uint32_t) span)); s.g[(size_t)n].period = d; p.push_back("period " + I(n) + " " + U(d)); continue;}
      if ((kind == ATTACH)&&(!nr.empty()))
      {
         const int n = wl.pick(nr); const int par = pickParent(wl, n, s.Height(n));
         if (par >= 0) {s.g[(size_t)n].parent = par; p.push_back("attach " + I(n) + " " + I(par)); continue;}
      }
      if ((kind == DETACH)&&(!nr.empty()))  {const int n = wl.pick(nr); s.Detach(n);  p.push_back("detach " + I(n));  continue;}
      if ((kind == DESTROY)&&(!nr.empty())) {const int n = wl.pick(nr); s.Destroy(n); p.push_back("destroy " + I(n)); continue;}
      if (kind == INCB)
      {
         // prefer a node that is likely to fire
         std::vector<int> hot; for (int n : all) if ((s.g[(size_t)n].w != kNever)&&(s.Attached(n))) hot.push_back(n);
         const int n = ((!hot.empty())&&(wl.pct(85))) ? wl.pick(hot) : wl.pick(all);
         if (wl.pct(30))
         {
            // an operation from inside a GetPulseTime() callback: it may touch only what lies below the node that is being asked
            std::vector<int> withKids; for (int q : all) {bool k = false; for (int i=0; i<s.hi; i++) if ((s.g[(size_t)i].alive)&&(i != q)&&(s.InSubtree(i, q))) k = true; if ((k)&&(s.Attached(q))) withKids.push_back(q);}
            const int qn = withKids.empty() ? n : wl.pick(withKids);
            std::vector<int> below; for (int i=0; i<s.hi; i++) if ((s.g[(size_t)i].alive)&&(i != qn)&&(s.Attached(i))&&(s.Top(i) == s.Top(qn))&&(!s.InSubtree(qn, i))&&((s.InSubtree(i, qn))||(wl.oneIn(2)))) below.push_back(i);
            std::vector<int> loose; for (int i=0; i<s.hi; i++) if ((s.g[(size_t)i].alive)&&(!s.IsRoot(i))&&(s.g[(size_t)i].parent < 0)&&(!s.InSubtree(qn, i))) loose.push_back(i);
            std::string l = "inq " + I(qn);
            const uint32_t c = wl.below(10);
            if ((c < 3)&&(!loose.empty())) {const int x = wl.pick(loose); std::vector<int> tg = below; tg.push_back(qn); const int y = wl.pick(tg); l += " attach " + I(x) + " " + I(y); s.g[(size_t)x].parent = y;}
            else if (!below.empty())
            {
               const int d = wl.pick(below);
               if (c < 8) {uint64_t est; const std::string tt = genTime(wl, est); s.g[(size_t)d].w = est; l += " want " + I(d) + " " + tt + (wl.oneIn(6) ? " k" : "");}
               else if (c == 8) l += " invalidate " + I(d);
               else {uint64_t est; const std::string tt = genTime(wl, est); l += " wantq " + I(d) + " " + tt;}
            }
            else {pushIncb(n, cbOp(wl)); continue;}
            p.push_back(l);
            if (wl.pct(50)) p.push_back("invalidate " + I(qn) + " k");   // make sure the node is asked at the next recalculation
            continue;
         }
         pushIncb(n, cbOp(wl)); continue;
      }
      if (kind == BURST)
      {
         // several attached nodes come due together (equal or adjacent times); shallow ones retarget deep ones from inside
         // their callbacks (what displaces branches); then the manager wakes, often late
         const std::vector<int> att = attachedList();
         const uint64_t T = s.estNow + 1 + wl.below((uint32_t) span);
         const int k = 2 + (int) wl.below(7);
         std::vector<int> chosen;
         for (int i=0; i<k; i++)
         {
            const int n = wl.pick(att); const uint64_t tn = T + (wl.pct(60) ? 0 : wl.below(4));
            s.g[(size_t)n].w = tn; p.push_back("want " + I(n) + " " + U(tn)); chosen.push_back(n);
         }
         if (cbPct > 0)
         {
            const int ncb = (int) wl.below(4);
            for (int i=0; i<ncb; i++)
            {
               int trig = wl.pick(chosen); for (int n : chosen) if ((s.Depth(n) < s.Depth(trig))&&(wl.pct(70))) trig = n;
               int tgt = wl.pick(att); for (int j=0; j<3; j++) {const int o = wl.pick(att); if (s.Depth(o) > s.Depth(tgt)) tgt = o;}
               std::vector<std::string> t; uint64_t est;
               if (wl.pct(80)) {t.push_back("want"); t.push_back(I(tgt)); t.push_back(wl.pct(50) ? std::string("+0") : genTime(wl, est));}
               else t = cbOp(wl);
               pushIncb(trig, t);
            }
         }
         doWake(wl.pct(50) ? 1 : 0); continue;
      }

      // a wake with nothing pending is an idle sweep: mostly give somebody a request first
      {
         const std::vector<int> att = attachedList();
         bool pending = false; for (int n : att) if (s.g[(size_t)n].w < kClockCap) pending = true;
         if ((!pending)&&(wl.pct(75))) doWant(wl, wl.pick(att));
      }
      doWake(0);
   }
   return p;
}

// ----------------------------------------------------------------------------------------------- execution
#define C20_COUNTERS(X) \
   X(OPS, "ops") \
   X(WANTQ, "wantq") \
   X(WAKE_EXACT, "wake_exact") \
   X(WAKE_OVERDUE, "wake_overdue") \
   X(WAKE_IDLE, "wake_idle") \
   X(SWEEPS_MULTI, "sweeps_multi") \
   X(F_EARLY, "f.early_wake") \
   X(F_LATE, "f.late_pulse") \
   X(F_JUMP, "f.clock_jump") \
   X(P_NEVER, "p.never_time") \
   X(P_TIE, "p.tie_times") \
   X(P_CB_INV, "p.in_callback_invalidate") \
   X(P_CB_SELF, "p.in_callback_self_invalidate") \
   X(P_CB_ATTACH, "p.in_callback_attach") \
   X(P_CB_DETACH, "p.in_callback_detach") \
   X(P_INQ_INVALIDATE, "p.in_getpulsetime_invalidate_descendant") \
   X(P_INQ_ATTACH, "p.in_getpulsetime_attach_below") \
   X(P_INQ_SIDEWAYS, "p.in_getpulsetime_invalidate_sibling_or_cousin") \
   X(P_REQUERIED_LATER_SAME_RECALC, "p.answered_later_within_same_recalculation") \
   X(P_REQUERY_NO_CAUSE, "p.requeried_without_cause") \
   X(P_DEFERRAL, "p.displaced_branch_deferral") \
   X(P_DEFERRAL_REPARENT, "p.deferral_by_in_callback_reparent_only") \
   X(P_REPARENT, "p.reparent") \
   X(P_FLOAT_ATTACH, "p.floating_subtree_attached") \
   X(P_DESTROY_IN_TREE, "p.destroy_in_tree") \
   X(P_ORPHANED, "p.orphaned_by_destroy") \
   X(P_EXACT, "p.exact_boundary") \
   X(P_EARLY1, "p.early_by_one") \
   X(P_WANTQ_OLD, "p.wantq_old_time_in_force")
enum {
#define X(a, b) K_##a,
C20_COUNTERS(X)
#undef X
   NUM_K};
static const char * kCtrNames[] = {
#define X(a, b) b,
C20_COUNTERS(X)
#undef X
};

struct H;
enum {CAUSE_NONE = 0, CAUSE_NEW, CAUSE_INVALIDATED, CAUSE_MOVED, CAUSE_PULSED};
static const char * kCauseNames[] = {"none", "never asked", "invalidated", "attached/detached", "pulsed"};

class Node : public PulseNode
{
public:
   Node(H * h, int id) : _h(h), _id(id), _mparent(-1), _want(kNever), _reported(kNever), _valid(false), _cause(CAUSE_NEW), _pulsedSweep(0), _period(0) {}
   virtual uint64 GetPulseTime(const PulseArgs & a);
   virtual void Pulse(const PulseArgs & a);

   H * _h; int _id;
   // shadow state (the harness's own; the library never sees it)
   int _mparent;              // id of the node the harness attached us under, or -1
   uint64_t _want;            // what GetPulseTime() will answer the next time it is asked
   uint64_t _reported;        // what it answered last
   bool _valid;               // is _reported still in force (not invalidated, not consumed by a Pulse(), not attached/detached since)?
   int _cause;                // why not (names the violation if the re-query never comes)
   uint64_t _pulsedSweep;     // number of the sweep that last ran our Pulse()
   uint64_t _period;
   std::vector<std::vector<std::string> > _incb;   // operations to perform from inside our next Pulse()
   std::vector<std::vector<std::string> > _inq;    // operations to perform from inside our next GetPulseTime() (regular recalculation only)
   uint64_t _lastQueryRecalc = 0;                  // number of the recalculation that last asked us
   uint64_t _inqTouchedRecalc = (uint64_t)-1;      // the recalculation during which it was last re-timed from inside another node's GetPulseTime()
   uint64_t _startForce = kNever;                  // the time we had in force when the current recalculation began (kNever: none)
};

class Mgr : public PulseNodeManager
{
public:
   void Recalc(PulseNode & p, uint64 now, uint64 & min) {CallGetPulseTimeAux(p, now, min);}
   void Sweep(PulseNode & p, uint64 now) {CallSetCycleStartTime(p, now); CallPulseAux(p, now);}
};

struct H
{
   RunResult & res; TraceHash th; Cfg cfg; int numRoots;
   std::vector<Node *> nodes;    // by id
   Mgr mgr;
   bool failed; std::string fcls, fdetail;   // first violation noticed inside a library callback (thrown once the library call has returned)
   std::set<uint64_t> withdrawn;     // F31, general form: times replaced by another answer of the same node within the current recalculation
   std::set<uint64_t> staleFolded;   // F31: answers that a later answer of the same node, within the same recalculation, could not withdraw from the running minimum
   bool inSweep, inRecalc, quiet, allowInq, staleMinPossible; uint64_t recalcNo; uint64_t sweepNo, curT; Node * running;
   std::vector<uint8_t> displaced, onStack; std::vector<uint64_t> rootT; std::vector<int> deferred;
   uint64_t callbacks, sweeps, queries, followups, faultsFired, lastNext;
   uint64_t ctr[NUM_K]; uint64_t maxNodes, maxAttached, maxDepth, maxPulsed;

   H(const Plan & plan, RunResult & r) : res(r), cfg(plan), failed(false), inSweep(false), inRecalc(false), quiet(false), allowInq(false), staleMinPossible(false), recalcNo(0), sweepNo(0), curT(0), running(NULL),
      displaced((size_t) kMaxId+1, 0), onStack((size_t) kMaxId+1, 0), callbacks(0), sweeps(0), queries(0), followups(0), faultsFired(0), lastNext(kNever), maxNodes(0), maxAttached(0), maxDepth(0), maxPulsed(0)
   {
      for (int k=0; k<NUM_K; k++) ctr[k] = 0;
      numRoots = (int) cfg.i("roots", 1); if (numRoots < 1) numRoots = 1; if (numRoots > 8) numRoots = 8;
      rootT.assign((size_t) numRoots, 0);
      nodes.assign((size_t) numRoots, (Node *) NULL);
      for (int i=0; i<numRoots; i++) nodes[(size_t)i] = new Node(this, i);
   }
   ~H() {for (size_t i=nodes.size(); i>0; i--) delete nodes[i-1];}

   Node * Get(int64_t id) const {return ((id >= 0)&&((uint64_t) id < nodes.size())) ? nodes[(size_t)id] : NULL;}
   bool IsRoot(const Node * n) const {return n->_id < numRoots;}
   Node * Parent(const Node * n) const {return Get(n->_mparent);}
   // id of the manager-level root n hangs under (per the harness's own record of what it attached where), or -1; depth in edges
   int RootOf(const Node * n, int * depth = NULL) const {int d = 0; while(n->_mparent >= 0) {n = nodes[(size_t)n->_mparent]; d++;} if (depth) *depth = d; return IsRoot(n) ? n->_id : -1;}
   bool InSubtree(const Node * n, const Node * top) const {while(n) {if (n == top) return true; n = Parent(n);} return false;}
   void Note(const char * cls, const std::string & detail) {if (!failed) {failed = true; fcls = cls; fdetail = detail;}}
   void Check() {if (failed) Fail(fcls, fdetail);}
   std::string Desc(const Node * n) const {return "node " + I(n->_id) + " (requested " + (n->_valid ? TimeStr(n->_reported) : std::string("nothing in force: ") + kCauseNames[n->_cause]) + ")";}

   void Unvalidate(Node * x, int cause) {if (x->_valid) {x->_valid = false; x->_cause = cause;} else if (x->_cause < cause) x->_cause = cause;}

   // An in-callback invalidation at x re-files x and every ancestor below the root; those that are on the active pulse
   // call stack are being swept anyway, the others are the "displaced branches" of DESIGN.md C20.
   enum {MARK_INVALIDATE = 1, MARK_REPARENT = 2};
   void MarkChain(const Node * x, int kind)
   {
      for (const Node * q = x; (q)&&(!IsRoot(q)); q = Parent(q)) if (!onStack[(size_t)q->_id]) displaced[(size_t)q->_id] |= (uint8_t) kind;
   }
   int Excused(const Node * n) const {int m = 0; for (const Node * q = n; (q)&&(!IsRoot(q)); q = Parent(q)) m |= displaced[(size_t)q->_id]; return m;}   // 0 = not excused

   // ---- operations (cb != NULL: performed from inside cb's Pulse() callback)
   void NoteTime(const Node * x, uint64_t t)
   {
      if (t == kNever) {ctr[K_P_NEVER]++; return;}
      for (const Node * o : nodes) if ((o)&&(o != x)&&((o->_want == t)||((o->_valid)&&(o->_reported == t)))) {ctr[K_P_TIE]++; break;}
   }
   void OpWant(const std::vector<std::string> & t, size_t a, Node * cb)   // t[a] = want|invalidate|wantq
   {
      const bool isInv = (t[a] == "invalidate"), isQ = (t[a] == "wantq");
      if (t.size() < a + (isInv ? 2 : 3)) return;
      Node * x = Get(ToI(t[a+1])); if (x == NULL) return;
      uint64_t tm = x->_want; if ((!isInv)&&(!ParseTime(t[a+2], g_simNowUs, tm))) return;
      const bool keep = (!isQ)&&(t.size() > a + (isInv ? 2 : 3))&&(t[a + (isInv ? 2 : 3)] == "k");
      if (!isInv) {NoteTime(x, tm); x->_want = tm;}
      th.u((uint64_t) x->_id); th.u(tm);
      if (g_verbose) fprintf(stderr, "   %s%s node %d -> %s%s\n", cb ? "[in callback] " : "", t[a].c_str(), x->_id, TimeStr(tm).c_str(), keep ? " (keep previous result)" : "");
      if (isQ) {ctr[K_WANTQ]++; return;}
      if (cb)
      {
         if (x->_valid) {ctr[K_P_CB_INV]++; MarkChain(x, MARK_INVALIDATE);}
         else if (x == cb) ctr[K_P_CB_SELF]++;
      }
      Unvalidate(x, CAUSE_INVALIDATED);
      x->InvalidatePulseTime(!keep);
   }
   void OpAttach(const std::vector<std::string> & t, size_t a, Node * cb)
   {
      if (t.size() < a+3) return;
      Node * x = Get(ToI(t[a+1])), * y = Get(ToI(t[a+2]));
      if ((x == NULL)||(y == NULL)||(x == y)||(IsRoot(x))||(InSubtree(y, x))) return;
      if ((cb)&&(onStack[(size_t)x->_id])) return;   // the API does not allow moving a node whose PulseAux() is on the call stack
      Node * op = Parent(x);
      if (op) ctr[K_P_REPARENT]++;
      if ((RootOf(x) < 0)&&(RootOf(y) >= 0)) {bool kids = false; for (const Node * o : nodes) if ((o)&&(o->_mparent == x->_id)) kids = true; if (kids) ctr[K_P_FLOAT_ATTACH]++;}
      if ((cb)&&(op)) MarkChain(op, MARK_REPARENT);
      x->_mparent = y->_id; Unvalidate(x, CAUSE_MOVED);
      if (cb) {MarkChain(x, MARK_REPARENT); ctr[K_P_CB_ATTACH]++;}
      th.u((uint64_t) x->_id); th.u((uint64_t) y->_id);
      if (g_verbose) fprintf(stderr, "   %sattach node %d under %d\n", cb ? "[in callback] " : "", x->_id, y->_id);
      y->PutPulseChild(x);
   }
   void OpDetach(const std::vector<std::string> & t, size_t a, Node * cb)
   {
      if (t.size() < a+2) return;
      Node * x = Get(ToI(t[a+1])); if ((x == NULL)||(IsRoot(x))) return;
      Node * op = Parent(x); if (op == NULL) return;
      if ((cb)&&(onStack[(size_t)x->_id])) return;
      if (cb) {MarkChain(op, MARK_REPARENT); ctr[K_P_CB_DETACH]++;}
      x->_mparent = -1; Unvalidate(x, CAUSE_MOVED);
      th.u((uint64_t) x->_id);
      if (g_verbose) fprintf(stderr, "   %sdetach node %d (from %d)\n", cb ? "[in callback] " : "", x->_id, op->_id);
      op->RemovePulseChild(x);
   }
   void OpDestroy(const std::vector<std::string> & t)
   {
      if (t.size() < 2) return;
      Node * x = Get(ToI(t[1])); if ((x == NULL)||(IsRoot(x))) return;
      if (RootOf(x) >= 0) ctr[K_P_DESTROY_IN_TREE]++;
      for (Node * o : nodes) if ((o)&&(o->_mparent == x->_id)) {o->_mparent = -1; Unvalidate(o, CAUSE_MOVED); ctr[K_P_ORPHANED]++;}
      th.u((uint64_t) x->_id);
      if (g_verbose) fprintf(stderr, "   destroy node %d\n", x->_id);
      nodes[(size_t)x->_id] = NULL; delete x;
   }
   void OpNode(const std::vector<std::string> & t)
   {
      if (t.size() < 2) return;
      const int64_t id = ToI(t[1]); if ((id < 0)||(id > kMaxId)||(Get(id))) return;
      if ((size_t) id >= nodes.size()) nodes.resize((size_t) id+1, (Node *) NULL);
      Node * x = new Node(this, (int) id); nodes[(size_t)id] = x;
      Node * y = (t.size() >= 3) ? Get(ToI(t[2])) : NULL; if (y == x) y = NULL;
      th.u((uint64_t) id); th.u(y ? (uint64_t) y->_id : (uint64_t) 999);
      if (g_verbose) fprintf(stderr, "   new node %d under %d\n", x->_id, y ? y->_id : -1);
      if (y) {x->_mparent = y->_id; y->PutPulseChild(x);}
   }
   void CbOp(const std::vector<std::string> & t, size_t a, Node * cb)
   {
      if (t.size() <= a) return;
      if ((t[a] == "want")||(t[a] == "invalidate")||(t[a] == "wantq")) OpWant(t, a, cb);
      else if (t[a] == "attach") OpAttach(t, a, cb);
      else if (t[a] == "detach") OpDetach(t, a, cb);
   }

   // ---- callbacks from the library
   uint64_t OnQuery(Node * n, uint64_t callTime, uint64_t prevTime)
   {
      queries++;
      // clause (3), second half: asked again only with a cause
      // (GetPulseTime()'s documentation lists the situations in which it is called; being asked once more without one of those causes is not something the
      //  property forbids -- the answer simply becomes the requested time in force -- so it is counted, not judged.  It used to be a violation class: removed as over-strict.)
      if (n->_valid) ctr[K_P_REQUERY_NO_CAUSE]++;
      // asked a second time within ONE recalculation (a callback re-timed it after it had answered) and now answering LATER: the smaller first answer has
      // already been folded into the recalculation's running minimum, which only ever decreases
      if ((inRecalc)&&(n->_lastQueryRecalc == recalcNo)&&(n->_want > n->_reported)) {staleMinPossible = true; staleFolded.insert(n->_reported); ctr[K_P_REQUERIED_LATER_SAME_RECALC]++;}
      // re-timed sideways (from inside another node's GetPulseTime()) during this recalculation, by whatever combination of operations, and now answering later than a
      // time of this node that the recalculation may already have folded in (the one in force when it began, or an earlier answer within it)
      // (... or lying below such a node: the whole branch of a sideways re-timed node may have been folded in through its aggregate before the re-timing, so a later answer of
      //  any node of that branch -- here typically one re-timed from inside the re-asked node's own GetPulseTime() -- cannot be withdrawn either)
      bool branchTouched = false; for (const Node * a = n; a; a = Parent(a)) if (a->_inqTouchedRecalc == recalcNo) {branchTouched = true; break;}
      if ((inRecalc)&&(branchTouched))
      {
         const uint64_t folded = std::min(n->_startForce, (n->_lastQueryRecalc == recalcNo) ? n->_reported : kNever);
         if (n->_want > folded) {staleMinPossible = true; staleFolded.insert(folded); ctr[K_P_REQUERIED_LATER_SAME_RECALC]++;}
      }
      // F31 in its general form: every time of this node that the running minimum of this recalculation may already contain and that this answer now replaces by something else
      if (inRecalc) {const uint64_t prevUsed = (n->_lastQueryRecalc == recalcNo) ? n->_reported : n->_startForce; if ((prevUsed != kNever)&&(prevUsed != n->_want)) {withdrawn.insert(prevUsed); staleFolded.insert(prevUsed);}}
      n->_lastQueryRecalc = recalcNo;
      n->_reported = n->_want; n->_valid = true; n->_cause = CAUSE_NONE;
      th.u(0x51); th.u((uint64_t) n->_id); th.u(n->_want); th.u(callTime); th.u(prevTime);
      if (g_verbose) fprintf(stderr, "      GetPulseTime(node %d; now=%llu prev=%s) -> %s\n", n->_id, (unsigned long long) callTime, TimeStr(prevTime).c_str(), TimeStr(n->_want).c_str());
      const uint64_t answer = n->_want;
      if ((allowInq)&&(!failed)&&(!n->_inq.empty()))
      {
         // operations from inside the GetPulseTime() callback, confined to what lies below n: everything they invalidate or attach is still ahead of
         // this very recalculation (a node is asked before its needy children are), so the post-recalculation clauses apply unchanged
         std::vector<std::vector<std::string> > ops; ops.swap(n->_inq);
         for (auto & t : ops)
         {
            if (t.empty()) continue;
            if (((t[0] == "want")||(t[0] == "invalidate")||(t[0] == "wantq"))&&(t.size() >= 2))
            {
               // any node of the same managed tree may be touched EXCEPT n itself and n's ancestors (their own query is already behind them in this very recalculation):
               // a sibling or cousin that was already recalculated lands on a needs-recalculation list again and must be revisited before the recalculation returns
               Node * x = Get(ToI(t[1])); if ((x == NULL)||(InSubtree(n, x))||(RootOf(x) < 0)||(RootOf(x) != RootOf(n))) continue;
               if (!InSubtree(x, n))
               {
                  ctr[K_P_INQ_SIDEWAYS]++;
                  // x (or the branch it lies in) may already have been folded into this recalculation's running minimum with its time still in force; if it is
                  // now re-timed to something later, that earlier contribution cannot be withdrawn (known finding F31: the reported time can only be too EARLY)
                  uint64_t tm = x->_want; const bool isInv = (t[0] == "invalidate");
                  const uint64_t folded = std::min(x->_startForce, (x->_lastQueryRecalc == recalcNo) ? x->_reported : kNever);   // the earliest time of x this recalculation may already have used
                  if (((isInv)||((t.size() >= 3)&&(ParseTime(t[2], g_simNowUs, tm))))&&((isInv ? x->_want : tm) > folded)&&(t[0] != "wantq")) {staleMinPossible = true; if (folded != kNever) staleFolded.insert(folded); ctr[K_P_REQUERIED_LATER_SAME_RECALC]++;}
               }
               if (!InSubtree(x, n)) x->_inqTouchedRecalc = recalcNo;
               th.s("inq"); ctr[K_P_INQ_INVALIDATE]++; OpWant(t, 0, NULL);
            }
            else if ((t[0] == "attach")&&(t.size() >= 3))
            {
               Node * x = Get(ToI(t[1])), * y = Get(ToI(t[2]));
               if ((x == NULL)||(y == NULL)||(IsRoot(x))||(x->_mparent >= 0)||(RootOf(y) < 0)||(RootOf(y) != RootOf(n))||(InSubtree(y, x))||(InSubtree(n, x))) continue;
               th.s("inq"); ctr[K_P_INQ_ATTACH]++; OpAttach(t, 0, NULL);
            }
         }
      }
      return answer;
   }
   void OnPulse(Node * n, uint64_t callTime, uint64_t schedTime)
   {
      callbacks++;
      th.u(0x50); th.u((uint64_t) n->_id); th.u(callTime); th.u(schedTime);
      if (g_verbose) fprintf(stderr, "      Pulse(node %d; now=%llu scheduled=%s)\n", n->_id, (unsigned long long) callTime, TimeStr(schedTime).c_str());
      const int rt = RootOf(n);
           if (!inSweep)                    Note("pulsed_early", Desc(n) + " had Pulse() called while the manager was not pulsing");
      else if (rt < 0)                      Note("detached_node_pulsed", Desc(n) + " is not attached to the managed tree but its Pulse() ran at " + U(callTime));
      else if (n->_pulsedSweep == sweepNo)  Note("pulsed_twice", Desc(n) + " had Pulse() called twice in the sweep at " + U(curT));
      else if (!n->_valid)                  Note("pulsed_early", Desc(n) + " had Pulse() called at " + U(callTime) + " although it has no requested time in force (scheduled-time argument " + TimeStr(schedTime) + ")");
      else if (n->_reported > curT)         Note("pulsed_early", Desc(n) + " had Pulse() called at " + U(curT) + ", " + ((n->_reported == kNever) ? std::string("never asked for") : U(n->_reported-curT) + " us early"));
      else if (schedTime != n->_reported)   Note("wrong_scheduled_time", Desc(n) + " got GetScheduledTime()=" + TimeStr(schedTime) + " in its Pulse() at " + U(curT));
      else if (callTime != curT)            Note("wrong_scheduled_time", Desc(n) + " got GetCallbackTime()=" + U(callTime) + " but the manager pulsed at " + U(curT));
      if ((n->_valid)&&(n->_reported == curT)) ctr[K_P_EXACT]++;
      if ((n->_valid)&&(n->_want != n->_reported)) ctr[K_P_WANTQ_OLD]++;
      // the request is consumed; what the node answers next: its period, a pending wantq, or "never"
      if (n->_period) n->_want = SatAdd(callTime, n->_period);
      else if (n->_want == n->_reported) n->_want = kNever;
      n->_valid = false; n->_cause = CAUSE_PULSED; n->_pulsedSweep = sweepNo;
      if ((quiet)||(failed)||(n->_incb.empty())) return;
      // operations from inside the callback: the active pulse call stack is n and its ancestors
      std::fill(onStack.begin(), onStack.end(), 0);
      for (const Node * q = n; q; q = Parent(q)) onStack[(size_t)q->_id] = 1;
      std::vector<std::vector<std::string> > ops; ops.swap(n->_incb);
      running = n;
      for (auto & t : ops) {th.s("incb"); CbOp(t, 0, n);}
      running = NULL;
   }

   // ---- the manager's loop
   uint64_t Recalc()
   {
      const uint64 now = GetRunTime64();
      uint64 mn = kNever;
      recalcNo++; staleMinPossible = false; withdrawn.clear();
      for (Node * n : nodes) if (n) n->_startForce = n->_valid ? n->_reported : kNever;
      inRecalc = true;
      for (int r=0; r<numRoots; r++) mgr.Recalc(*nodes[(size_t)r], now, mn);
      inRecalc = false;
      Check();
      // clause (3), first half: everybody whose time is not in force has been asked; clause (1): the minimum
      uint64_t mm = kNever; uint64_t nAtt = 0, nAll = 0; int maxDepth = 0; const Node * who = NULL;
      for (const Node * n : nodes) if (n)
      {
         nAll++;
         int d; if (RootOf(n, &d) < 0) continue;
         nAtt++; if (d > maxDepth) maxDepth = d;
         if (!n->_valid)
         {
            if (n->_cause == CAUSE_PULSED) Fail("not_requeried_after_pulse", Desc(n) + " ran its Pulse() but was not asked for its next pulse time by the following recalculation");
            Fail("not_requeried_after_invalidate", Desc(n) + " was not asked for its pulse time by the following recalculation");
         }
         if (n->_reported < mm) {mm = n->_reported; who = n;}
      }
      if (nAll > maxNodes) maxNodes = nAll;
      if (nAtt > maxAttached) maxAttached = nAtt;
      if ((uint64_t) maxDepth > this->maxDepth) this->maxDepth = (uint64_t) maxDepth;
      if ((mn < mm)&&(staleMinPossible)) Fail("root_time_too_early_after_later_answer_in_same_recalculation", "the manager was told to wake at " + TimeStr(mn) + " but the minimum over the " + U(nAtt) + " attached nodes' requested times is " + TimeStr(mm) + ": a node that had already answered in this recalculation was re-timed from inside another node's GetPulseTime() and answered a later time, but its first answer stays in the running minimum (effect: one early wake-up that pulses nothing)");
      // (the withdrawn-in-vain answer stays in the aggregates of that node's ancestors until their branch is recalculated again: while an earlier time hid it -- here a node
      //  that was due at once -- the same finding surfaces one or more recalculations later, with exactly that answer as the reported time)
      if ((mn < mm)&&(withdrawn.count(mn))) {ctr[K_P_REQUERIED_LATER_SAME_RECALC]++; Fail("root_time_too_early_after_later_answer_in_same_recalculation", "the manager was told to wake at " + TimeStr(mn) + " but the minimum over the " + U(nAtt) + " attached nodes' requested times is " + TimeStr(mm) + ": " + TimeStr(mn) + " is a time that a node had in force (or answered) earlier in this recalculation and has since replaced by another answer; the running minimum handed to the manager cannot withdraw it (effect: one early wake-up that pulses nothing)");}
      if ((mn < mm)&&(staleFolded.count(mn))) {ctr[K_P_REQUERIED_LATER_SAME_RECALC]++; Fail("root_time_too_early_after_later_answer_in_same_recalculation", "the manager was told to wake at " + TimeStr(mn) + " but the minimum over the " + U(nAtt) + " attached nodes' requested times is " + TimeStr(mm) + ": " + TimeStr(mn) + " is the answer a node gave in an EARLIER recalculation before it was re-timed, from inside another node's GetPulseTime(), to something later within that same recalculation; it was hidden by an earlier time until now (effect: one early wake-up that pulses nothing)");}
      if (mn != mm) Fail("root_time_not_min", "the manager was told to wake at " + TimeStr(mn) + " but the minimum over the " + U(nAtt) + " attached nodes' requested times is " + TimeStr(mm) + (who ? " (" + Desc(who) + ")" : std::string()));
      th.u(0x52); th.u(mn);
      if (g_verbose) fprintf(stderr, "   recalculated at %llu: next pulse %s\n", (unsigned long long) now, TimeStr(mn).c_str());
      lastNext = mn;
      return mn;
   }
   void Sweep(bool beQuiet)
   {
      sweepNo++; sweeps++; quiet = beQuiet;
      std::fill(displaced.begin(), displaced.end(), 0);
      inSweep = true;
      for (int r=0; r<numRoots; r++)
      {
         const uint64 t = GetRunTime64(); rootT[(size_t)r] = t; curT = t;
         if (g_verbose) fprintf(stderr, "   pulse root %d at %llu%s\n", r, (unsigned long long) t, beQuiet ? " (follow-up sweep)" : "");
         mgr.Sweep(*nodes[(size_t)r], t);
      }
      inSweep = false; quiet = false;
      Check();
      // clause (2): every attached node whose requested time is in force and <= t has run -- or lies under a displaced branch
      deferred.clear(); uint64_t ran = 0;
      for (const Node * n : nodes) if (n)
      {
         if (n->_pulsedSweep == sweepNo) {ran++; continue;}
         const int rt = RootOf(n); if ((rt < 0)||(!n->_valid)||(n->_reported > rootT[(size_t)rt])) continue;
         const int ex = Excused(n);
         if (ex) {deferred.push_back(n->_id); if ((ex & MARK_INVALIDATE) == 0) ctr[K_P_DEFERRAL_REPARENT]++;}
         else Fail("due_node_not_pulsed", Desc(n) + " is attached and due but its Pulse() did not run in the sweep at " + U(rootT[(size_t)rt]) + (beQuiet ? " (the sweep following a deferral)" : ""));
      }
      if (ran > maxPulsed) maxPulsed = ran;
      if (ran >= 2) ctr[K_SWEEPS_MULTI]++;
   }
   void OpWake(int64_t delta)
   {
      const int64_t kMaxDelta = (int64_t) 1 << 60; if (delta > kMaxDelta) delta = kMaxDelta; if (delta < -kMaxDelta) delta = -kMaxDelta;
      allowInq = true; const uint64_t next = Recalc(); allowInq = false;
      const uint64_t before = g_simNowUs, mag = (uint64_t)((delta < 0) ? -delta : delta);
      const bool finite = (next != kNever)&&(next < kClockCap);
      uint64_t target = finite ? ((delta < 0) ? ((mag > next) ? 0 : (next-mag)) : SatAdd(next, mag)) : SatAdd(before, 1 + std::min<uint64_t>(mag, 1000000000ULL));
      if (target > kClockCap) target = kClockCap;
      if (target > before+1) g_simNowUs = target-1;     // the first clock read of the sweep returns exactly (target)
      const uint64_t t1 = std::max(target, before+1);
      if (finite)
      {
         if (t1 < next) {ctr[K_F_EARLY]++; faultsFired++; if (t1+1 == next) ctr[K_P_EARLY1]++;}
         else if ((delta > 0)&&(target > before+1)) {ctr[K_F_LATE]++; faultsFired++;}
         else if (t1 == next) ctr[K_WAKE_EXACT]++;
         else ctr[K_WAKE_OVERDUE]++;
      }
      else ctr[K_WAKE_IDLE]++;
      Sweep(false);
      if (!deferred.empty())
      {
         // the relaxation: displaced due nodes must make the manager come straight back (next time <= now) and run in the very next sweep,
         // in which the harness performs no in-callback operations (they stay registered), so nothing can be displaced again
         const std::vector<int> d = deferred;
         ctr[K_P_DEFERRAL] += d.size(); followups++;
         const uint64_t next2 = Recalc();
         if (next2 > g_simNowUs) Fail("due_node_not_pulsed", U(d.size()) + " due node(s) were passed over in the sweep at " + U(t1) + " (first: node " + I(d[0]) + ") yet the manager is told to sleep until " + TimeStr(next2) + ", now is " + U(g_simNowUs));
         Sweep(true);
         for (int id : d) {const Node * n = Get(id); if ((n)&&(n->_pulsedSweep != sweepNo)) Fail("due_node_not_pulsed", Desc(n) + " was passed over in the sweep at " + U(t1) + " and did not run in the following sweep either");}
      }
   }
   void OpJump(uint64_t dt)
   {
      const uint64_t room = (g_simNowUs < kClockCap) ? (kClockCap - g_simNowUs) : 0;
      SimClockAdvance(std::min(dt, room));
      ctr[K_F_JUMP]++; faultsFired++;
   }

   void Finish()
   {
      Stats & st = res.stats;
      st.inc("sweeps", sweeps); st.inc("callbacks", callbacks); st.inc("queries", queries); st.inc("followup_sweeps", followups);
      st.inc((faultsFired > 0) ? "runs_with_faults" : "runs_fault_free");
      st.inc("p.multi_root", (numRoots > 1) ? 1 : 0);
      for (int k=0; k<NUM_K; k++) if ((ctr[k])||(kCtrNames[k][1] == '.')) st.inc(kCtrNames[k], ctr[k]);   // probes and fault kinds are reported even at 0
      st.max("max.nodes", maxNodes); st.max("max.attached", maxAttached); st.max("max.depth", maxDepth); st.max("max.pulsed_in_one_sweep", maxPulsed);
      res.hash = th.h;
      res.nontrivial = (callbacks >= 1)&&(sweeps >= 2);
      res.simMicros = g_simNowUs - g_simStartUs;
   }
};

inline uint64 Node::GetPulseTime(const PulseArgs & a) {return _h->OnQuery(this, a.GetCallbackTime(), a.GetScheduledTime());}
inline void Node::Pulse(const PulseArgs & a) {_h->OnPulse(this, a.GetCallbackTime(), a.GetScheduledTime());}

inline void Exec(const Plan & plan, RunResult & res)
{
   H h(plan, res);
   try
   {
      size_t opIdx = 0;
      for (const std::string & line : plan)
      {
         opIdx++;
         if (line.compare(0, 4, "cfg ") == 0) continue;
         const std::vector<std::string> t = Split(line); if (t.empty()) continue;
         SetCurOp("C20 op %zu: %.200s", opIdx, line.c_str());
         WatchdogArm(0);
         h.th.s(line);
         if (g_verbose) fprintf(stderr, "op %zu: %s   (clock %llu)\n", opIdx, line.c_str(), (unsigned long long) g_simNowUs);
         h.ctr[K_OPS]++;
              if (t[0] == "node")    h.OpNode(t);
         else if (t[0] == "attach")  h.OpAttach(t, 0, NULL);
         else if (t[0] == "detach")  h.OpDetach(t, 0, NULL);
         else if (t[0] == "destroy") h.OpDestroy(t);
         else if ((t[0] == "want")||(t[0] == "invalidate")||(t[0] == "wantq")) h.OpWant(t, 0, NULL);
         else if ((t[0] == "period")&&(t.size() >= 3)) {Node * x = h.Get(ToI(t[1])); if (x) {x->_period = ToU(t[2]); h.th.u((uint64_t) x->_id); h.th.u(x->_period);}}
         else if (((t[0] == "incb")||(t[0] == "incallback"))&&(t.size() >= 3))   {Node * x = h.Get(ToI(t[1])); if (x) {x->_incb.push_back(std::vector<std::string>(t.begin()+2, t.end())); h.th.u((uint64_t) x->_id);}}
         else if ((t[0] == "inq")&&(t.size() >= 3))    {Node * x = h.Get(ToI(t[1])); if (x) {x->_inq.push_back(std::vector<std::string>(t.begin()+2, t.end())); h.th.u((uint64_t) x->_id);}}
         else if ((t[0] == "wake")&&(t.size() >= 2))   h.OpWake(ToI(t[1]));
         else if ((t[0] == "jump")&&(t.size() >= 2))   h.OpJump(ToU(t[1]));
         h.Check();
      }
      SetCurOp("C20 final recalculation");
      WatchdogArm(0);
      (void) h.Recalc();   // clause (3) for the last sweep
      WatchdogDisarm();
   }
   catch(const Violation &) {h.Finish(); throw;}
   h.Finish();
}

}} // namespace vs::c20
