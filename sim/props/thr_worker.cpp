// sim/props/thr_worker.cpp -- thrsim worker: C18 C11 C19 C10 (one fork()ed child per seed from a warmed-up single-threaded parent)
#include "message/Message.h"
#include "util/NetworkUtilityFunctions.h"
#include "c18.h"
#if __has_include("c11.h")
# include "c11.h"
#endif
#if __has_include("c19.h")
# include "c19.h"
#endif
#if __has_include("c10.h")
# include "c10.h"
#endif
using namespace vs;
static muscle::CompleteSetupSystem * g_css = NULL;
static void Warmup()
{
   g_css = new muscle::CompleteSetupSystem;
   muscle::SetConsoleLogLevel(g_verbose ? muscle::MUSCLE_LOG_DEBUG : muscle::MUSCLE_LOG_NONE);
   // Touch the lazily constructed statics the workloads use, single-threaded, so that every child starts from the same address space.
   {muscle::ReaderWriterMutex rw; (void) rw.LockReadOnly(); (void) rw.UnlockReadOnly(); (void) rw.LockReadWrite(); (void) rw.UnlockReadWrite();}
   {muscle::MessageRef m = muscle::GetMessageFromPool(1); (void) m()->AddInt32("x", 1);}
   // The socket pool is a function-local static whose constructor passes a Mutex hook: if it were first constructed inside a simulated run, the scheduler could park the
   // constructing thread while it holds the C++ static-initialisation guard, and a second thread needing the same static would then block for real (found by seed 555:
   // two ThreadPools starting their first threads at once).  Construct it -- and the default Socket object a released Socket is reset from -- here.
   {muscle::ConstSocketRef a, b; (void) muscle::CreateConnectedSocketPair(a, b, false);}
   (void) muscle::GetInvalidSocket();
#if __has_include("c11.h")
   c11::WarmupStatics();
#endif
#if __has_include("c19.h")
   c19::WarmupStatics();
#endif
#if __has_include("c10.h")
   c10::WarmupStatics();
#endif
}
static const PropDef kProps[] = {
   {"C18", c18::Gen, c18::Exec, true},
#if __has_include("c11.h")
   {"C11", c11::Gen, c11::Exec, true},
#endif
#if __has_include("c19.h")
   {"C19", c19::Gen, c19::Exec, true},
#endif
#if __has_include("c10.h")
   {"C10", c10::Gen, c10::Exec, true},
#endif
};
int main(int argc, char ** argv)
{
   WorkerDef d = {"thrsim", kProps, (int)(sizeof(kProps)/sizeof(kProps[0])), Warmup, NULL};
   return WorkerMain(argc, argv, d);
}
