// sim/props/c04.h -- C04: a subscriber's mirror of the node tree converges (netsim/server).  Also hosts the workload generator pieces
// shared with C05/C06/C13 (names, paths, conservative patterns, filters, connection set-up, fault ops).
#pragma once
#include "../netsim/server_ops.h"

namespace vs { namespace gen {

static const char * kNames[] = {"a", "b", "ab", "c"};
// wide mode (1 run in 8): 16 more names, so that nodes get up to 20 children, sessions many subscriptions and tables grow through their re-hash sizes (7, 14, 28 ...)
static int g_wideNames = 0;
inline std::string Name(Rng & r) {if ((g_wideNames)&&(r.pct(60))) return "n" + I(r.below(16)); return kNames[r.below(4)];}
inline std::string RelPath(Rng & r, int maxDepth = 3) {std::string p = Name(r); const int d = (int) r.below((uint32_t) maxDepth); for (int i=0; i<d; i++) p += "/" + Name(r); return p;}
// clause mode of the run being generated: 0 = the full mix; 1 = literal names and comma lists of literal names only (a session whose subscriptions use no wildcard
// at some level is served by the traversal's direct-lookup path, which walks all of its entries with shared scratch state)
static int g_clauseMode = 0;
struct ClauseModeScope {ClauseModeScope(uint64_t seed) {Rng r(seed, "clausemode"); g_clauseMode = r.oneIn(6) ? 1 : 0; Rng w(seed, "widenames"); g_wideNames = w.oneIn(8) ? 1 : 0;} ~ClauseModeScope() {g_clauseMode = 0; g_wideNames = 0;}};
inline std::string ListClause(Rng & r) {static const char * l[] = {"a,b", "b,c", "ab,c", "a,ab", "c,a,b", "b,ab", "c,a*", "b,?b", "ab,a?"}; return l[r.below(r.oneIn(4) ? 9 : 6)];}   // (the last three: a wildcard in a non-first alternative -- such a clause is NOT a list of literal names)
inline std::string Clause(Rng & r)
{
   if (g_clauseMode == 1) return r.oneIn(2) ? ListClause(r) : Name(r);
   if ((g_wideNames)&&(r.pct(35))) {switch(r.below(5)) {case 0: return "n*"; case 1: return "n1?"; case 2: return "n[0-5]"; case 3: return "(n1|n2|c)"; default: return "n" + I(r.below(16));}}
   switch(r.below(8)) {case 0: return "*"; case 1: return "a*"; case 2: return "?"; case 3: return "(a|c)"; case 4: return r.oneIn(2) ? std::string("a,b") : ListClause(r); case 5: return "[a-b]"; case 6: return "*b"; default: return Name(r);}
}
// a conservative-subset pattern; relative (implicit */*/ prefix) or absolute
inline std::string Pattern(Rng & r, int hosts)
{
   std::string p = Clause(r); const int d = (int) r.below(3); for (int i=0; i<d; i++) p += "/" + Clause(r);
   const uint32_t k = r.below(20);
   if (k == 0) return "/*";                                   // host nodes
   if (k == 1) return "/*/*";                                 // session nodes
   if (k <= 3) return "/h" + I(r.below((uint32_t) hosts)) + "/*/" + p;   // one host only
   if (k == 4) return "/*/*/" + p;                            // explicit spelling of the implicit prefix
   if ((k == 5)&&(r.oneIn(2))) {static const char * rg[] = {"<0-3>", "<2->", "<-1>", "<1,3-5>", "<0>", "<0-1,4->"}; return std::string("/*/") + rg[r.below(6)] + "/" + p;}   // sessions selected by a numeric range of their ids
   return p;
}
inline std::string Filter(Rng & r, int depth = 0)
{
   switch(r.below(depth ? 4 : 7))
   {
      case 0: return std::string("i") + "><=!GL"[r.below(6)] + I(r.below(4));
      case 1: {const int lo = (int) r.below(30); return "w" + I(lo) + "-" + I(lo + (int) r.below(40));}
      case 2: return "e";
      case 3: if (r.oneIn(2)) {const int idx = (int) r.below(2); return "t" + I(idx) + (idx ? "y" : "x") + I(r.below(idx ? 2 : 3)) + ";";}   // string value #idx of a two-valued field
              return std::string("i>") + I(r.below(3));
      case 4: return "A(" + Filter(r, 1) + "," + Filter(r, 1) + ")";
      case 5: return "O(" + Filter(r, 1) + "," + Filter(r, 1) + ")";
      default: return std::string("i<") + I(1 + r.below(3));
   }
}

struct GenState
{
   int clients = 3, hosts = 2; int opid = 1; uint32_t val = 1; int routeSeq = 0; bool quietOk = false;
   std::vector<bool> up, self; std::vector<std::set<std::string> > intent; std::vector<std::map<std::string, std::string> > intentNorm;   // intentNorm: normalised path -> the one spelling this connection ever uses for it
   GenState(int c, int h) : clients(c), hosts(h), up(c, false), self(c, false), intent(c), intentNorm(c) {}
};
inline void GenConnect(Plan & p, GenState & g, Rng & cfg, Rng & fl, int c, bool faultFree, int selfPct = 25)
{
   const bool self = cfg.pct(selfPct);
   p.push_back("connect " + I(c) + " " + I(c % g.hosts) + " " + (self ? "1" : "0"));
   if (!faultFree)
   {
      p.push_back("chunks " + I(c) + " r " + SchedToStr(GenChunkSchedule(fl, -1)));
      p.push_back("chunks " + I(c) + " w " + SchedToStr(GenChunkSchedule(fl, -1)));
   }
   g.up[c] = true; g.self[c] = self; g.intent[c].clear(); g.intentNorm[c].clear();
}
inline int PickUp(GenState & g, Rng & r) {std::vector<int> u; for (int i=0; i<g.clients; i++) if (g.up[i]) u.push_back(i); return u.empty() ? -1 : u[r.below((uint32_t) u.size())];}

// emits one "pump" group: a few server steps and client reads in seeded order
inline void GenPump(Plan & p, GenState & g, Rng & r)
{
   const int n = 1 + (int) r.below(4);
   for (int i=0; i<n; i++) {if (r.pct(60)) p.push_back("step " + I(1 + r.below(3))); else {const int c = (int) r.below((uint32_t) g.clients); p.push_back("read " + I(c));}}
}
inline std::string SetDataCmd(GenState & g, Rng & r, const char * extraFlags = "")
{
   std::string fl = extraFlags; if ((g.quietOk)&&(r.oneIn(10))) fl += "q"; if (r.oneIn(5)) fl += "s"; if (r.oneIn(12)) fl += "o"; if (r.oneIn(15)) fl += "n"; if (fl.empty()) fl = "-";
   std::string s = "setdata " + fl;
   const int n = r.oneIn(4) ? (2 + (int) r.below(3)) : 1;
   for (int i=0; i<n; i++) s += " " + RelPath(r) + "=" + U(g.val++) + ":" + (r.oneIn(5) ? std::string("-") : I(r.below(4))) + (r.oneIn(10) ? ":" + U(20 + r.below(200)) : std::string());
   return s;
}
inline std::string RmDataCmd(Rng & r, bool quietOk = false)
{
   std::string s = ((quietOk)&&(r.oneIn(8))) ? "rmdata 1" : "rmdata 0";
   const int n = r.oneIn(5) ? 2 : 1;
   for (int i=0; i<n; i++) {std::string pat = r.pct(50) ? RelPath(r) : (Clause(r) + (r.oneIn(2) ? ("/" + Clause(r)) : std::string())); if (r.oneIn(5)) pat += "^" + Filter(r); s += " " + pat;}
   return s;
}

}} // namespace vs::gen

namespace vs { namespace c04 {

using namespace gen;

inline Plan Gen(uint64_t seed)
{
   ClauseModeScope clauseMode(seed);
   Rng cfg(seed, "config"), wl(seed, "workload"), fl(seed, "faults");
   Plan p;
   const int clients = 2 + (int) cfg.below(4), hosts = 1 + (int) cfg.below(3);
   const bool faultFree = cfg.oneIn(4);
   const bool useFilters = !cfg.oneIn(3), useBatch = cfg.oneIn(2), useDepartures = !cfg.oneIn(4);
   const bool knownDefects = cfg.oneIn(12);   // one run in twelve may subscribe with an alias spelling or an empty clause (recorded findings F14, F9); kept rare so they mask little
   p.push_back("cfg prop=C04 clients=" + I(clients) + " hosts=" + I(hosts) + " faultfree=" + I(faultFree) + " knowndefects=" + I(knownDefects));
   // one run in four: every server-side transport has an output stall limit (as TCP sockets do), and some quiescent points are reached over a slow link
   Rng sr(seed, "stall"); const bool stallRun = sr.oneIn(4); if (stallRun) p.push_back("cfg stall=" + U(sr.oneIn(3) ? 3000000ULL : 180000000ULL));
   GenState g(clients, hosts); g.quietOk = cfg.oneIn(4);   // one run in four also uses the quiet flags (quiet set, quiet removal, quiet subscribe) with their documented relaxations
   for (int c=0; c<clients; c++) if ((c < 2)||(cfg.pct(70))) GenConnect(p, g, cfg, fl, c, faultFree);
   p.push_back("step 2");
   const int nops = Rng(seed, "longrun").oneIn(20) ? (250 + (int) wl.below(350)) : (8 + (int) wl.below(wl.oneIn(4) ? 70 : 30));   // 1 run in 20 is a long history (tables and queues grow through several of their boundaries)
   int sinceQuiesce = 0;
   for (int op=0; op<nops; op++)
   {
      int c = PickUp(g, wl);
      if (c < 0) {c = (int) wl.below((uint32_t) clients); GenConnect(p, g, cfg, fl, c, faultFree); continue;}
      const bool inBatch = (useBatch)&&(wl.oneIn(6));
      const std::string sendPfx = (inBatch ? "bsend " : "send ") + I(c) + " ";
      const uint32_t k = wl.below(100);
      if (k < 30)
      {
         const std::string cmd = SetDataCmd(g, wl); p.push_back(sendPfx + cmd);
         // a several-node SETDATA (whose one update may carry sets AND filter-exit removals) is sometimes followed at once by a superceding re-set of one of its nodes:
         // the server then prunes that node from the still-queued update, whose other entries must survive
         const std::vector<std::string> ct = Split(cmd);
         if ((ct.size() >= 4)&&(wl.oneIn(3))) {const std::string & a = ct[2 + wl.below((uint32_t)(ct.size()-2))]; const size_t eq = a.find('='); if (eq != std::string::npos) p.push_back(sendPfx + "setdata s " + a.substr(0, eq) + "=" + U(g.val++) + ":" + I(wl.below(4)));}
      }
      else if (k < 40) p.push_back(sendPfx + RmDataCmd(wl, g.quietOk));
      else if (k < 58)
      {
         // subscribe (or re-subscribe an existing pattern with a different filter)
         std::string pat;
         if ((!g.intent[c].empty())&&(wl.oneIn(4))) {auto it = g.intent[c].begin(); std::advance(it, wl.below((uint32_t) g.intent[c].size())); pat = *it;}
         else if ((knownDefects)&&(wl.oneIn(25))&&(!g.intent[c].empty()))
         {
            // F14: a second spelling of a path this client already subscribes to (the relative form and the explicit /*/*/ form)
            auto it = g.intent[c].begin(); std::advance(it, wl.below((uint32_t) g.intent[c].size())); const std::string base = *it;
            if ((base.empty())||(base[0] == '/')) continue;
            pat = "/*/*/" + base; g.intent[c].insert(pat);
         }
         else if ((knownDefects)&&(wl.oneIn(40))) {pat = Name(wl) + "/"; g.intent[c].insert(pat);}   // F9: a path with an empty clause
         else
         {
            pat = Pattern(wl, hosts);
            const std::string norm = match::Normalise(pat);
            auto ni = g.intentNorm[c].find(norm);
            if ((ni != g.intentNorm[c].end())&&(ni->second != pat)) continue;   // a second spelling of a path this connection has used: aliasing is finding F14 (an un-flushed or in-flight unsubscribe would make it real)
            g.intent[c].insert(pat); g.intentNorm[c][norm] = pat;
         }
         const std::string f = ((useFilters)&&(wl.pct(45))) ? Filter(wl) : "-";
         std::string more;
         if (wl.oneIn(5))
         {
            // several SUBSCRIBE: fields in one SETPARAMETERS Message, filtered and unfiltered ones mixed
            const int extra = 1 + (int) wl.below(2);
            for (int e=0; e<extra; e++)
            {
               const std::string pat2 = Pattern(wl, hosts); const std::string norm2 = match::Normalise(pat2);
               auto n2 = g.intentNorm[c].find(norm2);
               if (((n2 != g.intentNorm[c].end())&&(n2->second != pat2))||(pat2 == pat)) continue;
               g.intent[c].insert(pat2); g.intentNorm[c][norm2] = pat2;
               const std::string f2 = (useFilters) ? ((f == "-") ? (wl.pct(70) ? Filter(wl) : std::string("-")) : (wl.pct(70) ? std::string("-") : Filter(wl))) : std::string("-");
               more += " " + Esc(pat2) + " " + f2;
            }
         }
         p.push_back(sendPfx + "sub " + I(g.opid++) + " " + (((g.quietOk)&&(wl.oneIn(8))) ? "1" : "0") + " " + Esc(pat) + " " + f + more);
      }
      else if (k < 66)
      {
         if (g.intent[c].empty()) continue;
         if (wl.oneIn(8)) {p.push_back(sendPfx + "unsuball " + I(g.opid++)); g.intent[c].clear();}
         else {auto it = g.intent[c].begin(); std::advance(it, wl.below((uint32_t) g.intent[c].size())); const std::string pat = *it; g.intent[c].erase(it); p.push_back(sendPfx + "unsub " + I(g.opid++) + " " + Esc(pat));}
      }
      else if (k < 70) {if (!useFilters) p.push_back(sendPfx + "getdata " + Esc(Pattern(wl, hosts)));}   // GETDATA replies are indistinguishable from updates and ignore subscription filters: only in filter-free runs
      else if ((k < 73)&&(wl.oneIn(4))) {static const char * rf[] = {"!N2G", "!G2N"}; const char * f = rf[wl.below(2)]; p.push_back(sendPfx + "param " + f + " 1"); if (wl.oneIn(2)) GenPump(p, g, wl); if (wl.pct(70)) p.push_back(sendPfx + "rmparam " + Esc(f));}   /* routing flags govern unrecognised Messages only: updates keep flowing */
      else if (k < 73) {static const int mx[] = {1, 2, 3, 50}; p.push_back(sendPfx + "param !MxUp " + I(mx[wl.below(4)]));}
      else if ((k < 75)&&(wl.oneIn(3))) p.push_back(sendPfx + "jettisontrees" + (wl.oneIn(2) ? std::string() : std::string(" *")));   /* cancels queued subtree downloads: the updates queued for this subscriber are none of those */
      else if (k < 75) p.push_back(sendPfx + "ping " + I(op));
      else if ((k < 80)&&(useDepartures)&&(!faultFree || wl.oneIn(2)))
      {
         const uint32_t how = wl.below(10);
         if (how < 5) p.push_back("close " + I(c)); else if (how < 8) p.push_back("cut " + I(c) + " " + U(wl.below(4000))); else p.push_back("reset " + I(c));
         g.up[c] = false;
      }
      else if (k < 84) {const int n = (int) wl.below((uint32_t) clients); if (!g.up[n]) GenConnect(p, g, cfg, fl, n, faultFree);}
      else if ((k < 90)&&(!faultFree))
      {
         switch(fl.below(5))
         {
            case 0: p.push_back("noread " + I(c) + " " + I(fl.below(2))); break;
            case 1: p.push_back("stall " + I(c) + " " + I(fl.below(2))); break;
            case 2: p.push_back("cap " + I(c) + " " + U(fl.oneIn(2) ? 0 : (64 + fl.below(2000)))); break;
            case 3: p.push_back("advance " + U(fl.oneIn(3) ? (1000000ULL * (1 + fl.below(100000))) : (1 + fl.below(50000)))); break;
            default: p.push_back("step " + I(1 + fl.below(6))); break;   // a burst of server steps while clients are idle
         }
      }
      else GenPump(p, g, wl);
      if ((inBatch)&&(wl.oneIn(2))) p.push_back("bflush " + I(c));
      if (wl.pct(55)) GenPump(p, g, wl);
      if ((++sinceQuiesce >= 10 + (int) wl.below(10))||(wl.oneIn(12))) {for (int i=0; i<clients; i++) if (g.up[i]) p.push_back("bflush " + I(i)); p.push_back(((stallRun)&&(sr.oneIn(2))) ? ("slowq " + I((int) sr.below((uint32_t) clients)) + " " + U(sr.oneIn(2) ? 8 : (16 + sr.below(100))) + " " + I(8 + (int) sr.below(40))) : std::string("quiesce")); sinceQuiesce = 0;}
   }
   for (int i=0; i<clients; i++) if (g.up[i]) p.push_back("bflush " + I(i));
   return p;
}

inline void Exec(const Plan & plan, RunResult & res)
{
   srv::Interp in(plan, res);
   in.sim.orc.mirror = true; in.sim.orc.marks = true;
   in.Run();
   const Stats & st = res.stats;
   auto get = [&](const char * k) {auto it = st.c.find(k); return (it == st.c.end()) ? (uint64_t) 0 : it->second;};
   res.nontrivial = (get("sessions_connected") >= 2)&&(get("dataitems_updates") >= 1)&&(get("mirror_entries_checked") >= 1);
   if (Cfg(plan).i("faultfree", 0)) res.stats.inc("runs_fault_free"); else res.stats.inc("runs_with_faults");
}

}} // namespace vs::c04
