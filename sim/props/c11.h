// sim/props/c11.h -- C11: Thread<->owner Messages arrive exactly once, in order, and always wake the peer (thrsim)
#pragma once
#include "system/Thread.h"
#include "util/SocketCallbackMechanism.h"
#include "message/Message.h"
#include "util/SocketMultiplexer.h"
#include "util/NetworkUtilityFunctions.h"
#include <unistd.h>
#include "c18.h"

namespace vs { namespace c11 {

using namespace muscle;

// what-code of a Message = sender*100000 + seq;  a reply = 50000000 + that
enum {REPLY_BASE = 50000000};

// Owner program (prog 0):  START | S<k> (send k Messages) | G0 / G<d> / GN (get next reply: poll / timed / forever) | SHUT1 (shutdown+wait) | SHUT0 (request shutdown) | WAIT (wait for exit) | Y
// Extra sender programs (prog 1..): S<k> | Y     (they only run while the internal thread is running; the owner waits for them before shutting down)
inline Plan Gen(uint64_t seed)
{
   Rng cfg(seed, "config"), wl(seed, "workload");
   Plan p;
   const int extras = (int) cfg.below(3);
   const int sockets = (int) cfg.below(2);
   // ownloop: 0 = Thread's default loop, 1 = own loop on timed WaitForNextMessageFromOwner(), 2 = own loop that select()s on the wake-up socket FIRST and only then polls
   //          the queue (the documented pattern for a thread with its own event loop, e.g. MessageTransceiverThread's ReflectServer): it depends on every wake-up byte.
   // ownersel: 1 = the owner collects replies the same way (GetNextReplyFromInternalThread(0) until empty, then select() on GetOwnerWakeupSocket());
   //           2 = STRICTLY event-driven owner: it looks at its reply queue only after select() reported the wake-up socket readable, and then drains it
   //               (its G ops are no-ops): every reply -- including one queued before the thread was started -- must produce a wake-up byte
   const int ownloop = cfg.oneIn(3) ? 1 : (((sockets)&&(cfg.oneIn(3))) ? 2 : 0);
   p.push_back("cfg prop=C11 sockets=" + I(sockets) + " ownloop=" + I(ownloop) + " ownersel=" + I(((sockets)&&(Rng(seed, "mech").oneIn(6))) ? 3 : (((sockets)&&(cfg.oneIn(3))) ? (1 + (int) cfg.below(2)) : 0)) + " extras=" + I(extras) + thrc::SchedCfgStr(cfg)
               + " closefd0=" + I(((sockets)&&(Rng(seed, "closefd0").oneIn(8))) ? 1 : 0)   // descriptor 0 is free when the Thread creates its socket pair (a process that closed stdin): one signalling socket IS descriptor 0
               + " usersock=" + I(((sockets)&&(Rng(seed, "usersock").oneIn(4))) ? (1 + (int) Rng(seed, "usersock2").below(2)) : 0));   // 1/2: the internal thread also watches a user socket (for write-ready / for exceptions) that never becomes ready
   std::string s = "prog 0";
   const int pre = (int) wl.below(3); if (pre) s += " S" + I(pre);     // queued before the thread is started
   if (wl.oneIn(4)) s += " P" + I(1 + wl.below(2));                     // replies queued (by the subclass) before the thread is started
   if (Rng(seed, "ows").oneIn(4)) s += " OWS";   // the owner asks for its wake-up socket before the thread exists (the socket pair is created then, with Messages possibly queued already and no byte sent for them)
   if (wl.oneIn(8)) s += " STARTF";   // a first attempt on which the creation of the signalling sockets fails (out of descriptors): it must fail cleanly and a retry must work
   s += " START";
   const int cycles = wl.oneIn(4) ? 2 : 1;
   for (int c=0; c<cycles; c++)
   {
      if (c > 0) {const int q = (int) wl.below(3); if (q) s += " S" + I(q); if (wl.oneIn(4)) s += " P" + I(1 + wl.below(2)); if (wl.oneIn(8)) s += " STARTF"; s += " START";}
      const int nops = 1 + (int) wl.below(8);
      for (int i=0; i<nops; i++)
      {
         const uint32_t k = wl.below(10);
         if (k < 4) s += " S" + I(wl.oneIn(10) ? (9 + (int) wl.below(14)) : (1 + (int) wl.below(3)));   // (sometimes a burst that takes the queue through its growth steps while the receiver lags)
         else if (k < 8) {const uint32_t g = wl.below(3); s += (g == 0) ? std::string(" G0") : ((g == 1) ? (" G" + I(1 + wl.below(200))) : std::string(" GN"));}
         else s += " Y";
      }
      s += " DRAIN";   // collect every outstanding reply (GN until all have arrived): a lost wake-up shows up here as a deadlock
      {const uint32_t sv = wl.below(6); s += (sv < 2) ? " SHUT0 WAIT" : ((sv == 2) ? " S2 SHUT2" : " SHUT1");}   // SHUT2: shut down and join WITHOUT collecting first; what the thread still sent back must be receivable afterwards
   }
   p.push_back(s);
   for (int e=1; e<=extras; e++)
   {
      std::string x = "prog " + I(e); const int n = 1 + (int) wl.below(4);
      for (int i=0; i<n; i++) x += wl.oneIn(3) ? std::string(" Y") : (" S" + I(1 + wl.below(3)));
      p.push_back(x);
   }
   return p;
}

struct Shared
{
   std::vector<uint32> insideLog;             // what the internal thread received, in order (appended by the internal thread)
   std::vector<uint32> sentTo[8];             // per sender: what-codes handed to SendMessageToInternalThread() that were accepted, in order
   std::vector<uint32> replies;               // what the owner received back, in order
   uint32 nextSeq[8] = {0,0,0,0,0,0,0,0};
   volatile int extrasRunning = 0; volatile bool threadUp = false; volatile int extrasReleased = 0;
   RunResult * res = NULL;
   // "no lost wake-up" invariant (evaluated at every scheduling decision): once every send call has returned, a receiver that still has a Message queued is never asleep
   volatile int internalTid = -1; volatile bool armed = false;   // armed = StartInternalThread() has returned and shutdown has not been requested
   volatile int sendsInFlight = 0, repliesInFlight = 0; volatile uint32 sendsDone = 0, repliesDone = 0;
   std::vector<uint32> expectedReplies;       // every reply handed to SendMessageToOwner(), in call order (= the order the owner must receive them in)
   volatile int prePending = 0; uint32 preCount = 0;   // replies queued while the thread was not running: the owner's wake-up for them is due only once the new thread has passed its entry code
};
static Shared * g_sh = NULL;
static std::string NoLostWakeup(std::string & cls)
{
   Shared * sh = g_sh; if ((sh == NULL)||(!sh->armed)) return "";
   if ((sh->sendsInFlight == 0)&&(sh->internalTid >= 0)&&(sh->sendsDone > sh->insideLog.size())&&(thr::IsAsleep(sh->internalTid)))
      {cls = "receiver_asleep_with_message_queued"; return "the internal thread is blocked waiting (nothing pending on its wake-up mechanism, deadline not reached) although " + U(sh->sendsDone - sh->insideLog.size()) + " Message(s) whose SendMessageToInternalThread() call has returned are still in its queue and no send is in progress";}
   if ((sh->repliesInFlight == 0)&&(sh->repliesDone > sh->replies.size())&&(thr::IsAsleep(0)))
      {cls = "owner_asleep_with_reply_queued"; return "the owner is blocked waiting for a reply (nothing pending on its wake-up mechanism, deadline not reached) although " + U(sh->repliesDone - sh->replies.size()) + " reply Message(s) whose SendMessageToOwner() call has returned are still in its queue";}
   return "";
}

class EchoThread : public Thread
{
public:
   EchoThread(bool sockets, int ownLoop, Shared * sh, ICallbackMechanism * mech = NULL) : Thread(sockets, mech), _ownLoop(ownLoop), _sh(sh), _mechMode(mech != NULL) {}
   // callback-mechanism mode: the owner never asks for replies itself -- the mechanism's DispatchCallbacks(), run by the owner when the mechanism's notifier socket is readable,
   // ends up here once per reply
   virtual void MessageReceivedFromInternalThread(const MessageRef & r, uint32) {if ((_mechMode)&&(r())) {_sh->replies.push_back(r()->what); _sh->res->stats.inc("replies_received"); _sh->res->stats.inc("replies_received_through_callback_mechanism");}}
   bool _mechMode = false;
   virtual status_t MessageReceivedFromOwner(const MessageRef & m, uint32 numLeft)
   {
      if (m() == NULL) return B_SHUTTING_DOWN;
      _sh->insideLog.push_back(m()->what);
      thr::Yield();
      MessageRef r = GetMessageFromPool(REPLY_BASE + m()->what);
      _sh->repliesInFlight++; _sh->expectedReplies.push_back(r()->what);
      if (SendMessageToOwner(r).IsError()) thr::ReportAndExit("reply_send_failed", "SendMessageToOwner failed");
      _sh->repliesDone++; _sh->repliesInFlight--;
      (void) numLeft;
      return B_NO_ERROR;
   }
   // the documented way for an internal thread to watch sockets of its own next to its Message queue: here a socket that never becomes ready (its send buffer is full),
   // created BEFORE the thread's wake-up sockets (so it has the lower descriptor), watched for write-ready (kind 1) or for exceptions (kind 2)
   void WatchUnreadySocket(int kind)
   {
      if (CreateConnectedSocketPair(_userA, _userB, false).IsError()) return;
      char junk[4096]; memset(junk, 'x', sizeof(junk));
      for (int i=0; i<100000; i++) if (::write(_userA.GetFileDescriptor(), junk, sizeof(junk)) <= 0) break;   // fill until it would block
      (void) RegisterInternalThreadSocket(_userA, (kind == 1) ? SOCKET_SET_WRITE : SOCKET_SET_EXCEPTION);
      _sh->res->stats.inc((kind == 1) ? "runs_with_unready_user_socket_in_write_set" : "runs_with_unready_user_socket_in_exception_set");
   }
   ConstSocketRef _userA, _userB;
   // "a subclass decided to call SendMessageToOwner() in advance" (Thread.cpp): a reply queued while the internal thread is not running
   status_t PreReply(uint32 w) {return SendMessageToOwner(GetMessageFromPool(w));}
   // the shape MessageTransceiverThread uses: its own event loop on the wake-up mechanism, with timed waits
   virtual void InternalThreadEntry()
   {
      _sh->internalTid = thr::Self();
      _sh->repliesInFlight -= _sh->prePending; _sh->prePending = 0;   // Thread::InternalThreadEntryAux() has signalled the owner about replies queued before the start by now
      if (_ownLoop == 0) {Thread::InternalThreadEntry(); return;}
      if (_ownLoop == 2)
      {
         // select first: only a wake-up byte makes this loop look at its queue
         SocketMultiplexer sm; const int fd = GetInternalThreadWakeupSocket().GetFileDescriptor();
         if (fd < 0) thr::ReportAndExit("no_wakeup_socket", "GetInternalThreadWakeupSocket() is invalid inside the running internal thread");
         while(true)
         {
            (void) sm.RegisterSocketForReadReady(fd);
            if (sm.WaitForEvents(MUSCLE_TIME_NEVER).IsError()) return;
            if (sm.IsSocketReadyForRead(fd) == false) continue;
            while(true)
            {
               MessageRef m; uint32 left = 0;
               if (WaitForNextMessageFromOwner(m, 0, &left).IsError()) break;     // B_TIMED_OUT: queue empty (and the signal bytes drained): back to select()
               if (MessageReceivedFromOwner(m, left).IsError()) return;
            }
         }
      }
      while(true)
      {
         MessageRef m; uint32 left = 0;
         const status_t r = WaitForNextMessageFromOwner(m, (_sh->insideLog.size() % 2) ? MUSCLE_TIME_NEVER : (GetRunTime64() + 100), &left);
         if (r.IsOK()) {if (MessageReceivedFromOwner(m, left).IsError()) break;}
         else if (r != B_TIMED_OUT) break;
      }
   }
private:
   int _ownLoop; Shared * _sh;
};

inline void WarmupStatics()
{
   // constructs the function-static pools (Socket pool etc.) that a Thread with messaging sockets touches
   Shared sh; RunResult rr; sh.res = &rr;
   {EchoThread t(true, 0, &sh); (void) t.SendMessageToInternalThread(GetMessageFromPool(1)); MessageRef r; (void) t.GetNextReplyFromInternalThread(r, 0);}
   {EchoThread t(false, 0, &sh); (void) t.SendMessageToInternalThread(GetMessageFromPool(1));}
}

inline void Exec(const Plan & plan, RunResult & res)
{
   Cfg cfg(plan);
   std::map<int, std::vector<std::string> > progs = thrc::Programs(plan);
   if (progs.find(0) == progs.end()) {res.hash = 1; return;}
   SetCurOp("C11 run"); WatchdogArm(0);
   Shared sh; sh.res = &res;
   thr::Begin(thrc::SchedCfgFrom(cfg));
   g_sh = &sh; thr::SetInvariant(NoLostWakeup);
   {
      const bool sockets = (cfg.i("sockets", 1) != 0);
      if ((sockets)&&(cfg.i("closefd0", 0))) {(void) ::close(0); res.stats.inc("runs_with_descriptor_0_free");}
      const bool mechOwner = (sockets)&&(cfg.i("ownersel", 0) == 3);   // 3 = the owner is woken through a SocketCallbackMechanism (Thread's optional ICallbackMechanism) and collects replies in its dispatch callback
      SocketCallbackMechanism mech;   // (outlives the Thread)
      EchoThread t(sockets, sockets ? (int) cfg.i("ownloop", 0) : (cfg.i("ownloop", 0) ? 1 : 0), &sh, mechOwner ? &mech : NULL);
      const bool ownerSel = (sockets)&&(cfg.i("ownersel", 0) != 0), strictOwner = (sockets)&&(cfg.i("ownersel", 0) == 2);
      if ((sockets)&&(cfg.i("usersock", 0) > 0)&&(cfg.i("ownloop", 0) != 2)) t.WatchUnreadySocket((int) cfg.i("usersock", 0));
      SocketMultiplexer ownerSm;
      auto Send = [&](int sender, int k) {for (int i=0; i<k; i++) {const uint32 w = (uint32)(sender*100000) + sh.nextSeq[sender]++; sh.sendsInFlight++; if (t.SendMessageToInternalThread(GetMessageFromPool(w)).IsOK()) {sh.sentTo[sender].push_back(w); res.stats.inc("msgs_sent"); sh.sendsDone++; sh.sendsInFlight--;} else thr::ReportAndExit("send_failed", "SendMessageToInternalThread failed"); if (i+1 < k) thr::Yield();}};
      auto TotalSent = [&]() {size_t n = 0; for (auto & v : sh.sentTo) n += v.size(); return n;};
      auto TotalOwed = [&]() {return TotalSent() + (size_t) sh.preCount;};   // replies the owner will eventually be owed
      auto GetReply = [&](uint64 wakeup) -> bool
      {
         MessageRef r; const status_t st = t.GetNextReplyFromInternalThread(r, wakeup);
         if (st.IsOK()) {if (r() == NULL) {res.stats.inc("p.null_reply_thread_exited"); return false;} sh.replies.push_back(r()->what); res.stats.inc("replies_received"); return true;}
         if (st == B_TIMED_OUT) {if (wakeup == MUSCLE_TIME_NEVER) res.stats.inc("p.timeout_on_wait_forever"); return false;}   // (a stale signal byte can turn wait-forever into B_TIMED_OUT in socket mode; no Message is lost: F19, tolerated and counted)
         thr::ReportAndExit("get_reply_error", std::string("GetNextReplyFromInternalThread returned ") + st());
      };
      // extra sender threads: released when the internal thread is started, must be done before it is shut down
      int ex = 0;
      for (auto & kv : progs) if (kv.first > 0)
      {
         const int sender = ++ex; const std::vector<std::string> ops = kv.second; sh.extrasRunning++;
         thr::Spawn([&, sender, ops]() {
            thr::WaitUntil([&]() {return (bool) sh.threadUp;});
            for (auto & op : ops) {if (op == "Y") thr::Yield(); else if ((op.size() > 1)&&(op[0] == 'S')) Send(sender, (int) ToI(op.substr(1)));}
            sh.extrasRunning--; });
      }
      bool running = false; size_t repliesAtStart = 0; (void) repliesAtStart;
      // the owner's select-first collection: polls until its queue is empty (only then is the next wake-up byte guaranteed), then sleeps in select() on the owner wake-up socket
      auto SelectAndCollect = [&]()
      {
         if (mechOwner)
         {
            const int mfd = mech.GetDispatchThreadNotifierSocket().GetFileDescriptor();
            if (mfd < 0) thr::ReportAndExit("no_wakeup_socket", "the callback mechanism's notifier socket is invalid");
            (void) ownerSm.RegisterSocketForReadReady(mfd);
            if (ownerSm.WaitForEvents(MUSCLE_TIME_NEVER).IsError()) thr::ReportAndExit("select_failed", "SocketMultiplexer::WaitForEvents failed on the callback mechanism's notifier socket");
            if (ownerSm.IsSocketReadyForRead(mfd)) {res.stats.inc("owner_select_wakeups"); mech.DispatchCallbacks();}
            return;
         }
         if (!strictOwner) {while(GetReply(0)) {} if (sh.replies.size() >= TotalOwed()) return;}
         const int fd = t.GetOwnerWakeupSocket().GetFileDescriptor();
         if (fd < 0) thr::ReportAndExit("no_wakeup_socket", "GetOwnerWakeupSocket() is invalid while the internal thread is running");
         (void) ownerSm.RegisterSocketForReadReady(fd);
         if (ownerSm.WaitForEvents(MUSCLE_TIME_NEVER).IsError()) thr::ReportAndExit("select_failed", "SocketMultiplexer::WaitForEvents failed on the owner wake-up socket");
         if (ownerSm.IsSocketReadyForRead(fd)) {res.stats.inc("owner_select_wakeups"); if (strictOwner) while(GetReply(0)) {}}
      };
      auto Drain = [&]() {int guard = 0; while((sh.replies.size() < TotalOwed())&&(guard++ < 10000)) {if (ownerSel) SelectAndCollect(); else (void) GetReply(MUSCLE_TIME_NEVER);}};
      auto Shutdown = [&](bool waitToo)
      {
         if (!running) return;
         thr::WaitUntil([&]() {return sh.extrasRunning == 0;});   // nobody sends concurrently with the shutdown request
         Drain();
         sh.armed = false;
         t.ShutdownInternalThread(waitToo); res.stats.inc("shutdowns");
         if (waitToo) {running = false; sh.threadUp = false;}
      };
      for (const std::string & op : progs[0])
      {
         if (op == "Y") thr::Yield();
         else if (op == "OWS") {(void) t.GetOwnerWakeupSocket(); res.stats.inc("p.owner_socket_requested_before_start");}
         else if (op == "STARTF")
         {
            if (!running)
            {
               thr::FailSocketpairs(true); const status_t sr = t.StartInternalThread(); thr::FailSocketpairs(false);
               if (sr.IsOK()) {running = true; sh.armed = true; sh.threadUp = true; res.stats.inc("starts"); if (TotalSent() > sh.insideLog.size()) res.stats.inc("p.started_with_queued_messages");}   // (the sockets existed already)
                         else res.stats.inc("f.socketpair_emfile_at_start");
            }
         }
         else if (op == "START") {if (!running) {if (t.StartInternalThread().IsError()) thr::ReportAndExit("start_failed", "StartInternalThread failed"); running = true; sh.armed = true; sh.threadUp = true; res.stats.inc("starts"); if (TotalSent() > sh.insideLog.size()) res.stats.inc("p.started_with_queued_messages");}}
         else if ((op.size() > 1)&&(op[0] == 'S')&&(isdigit((unsigned char) op[1]))) Send(0, (int) ToI(op.substr(1)));
         else if ((op.size() > 1)&&(op[0] == 'P')&&(isdigit((unsigned char) op[1])))
         {
            if (!running) for (int i=0; i<(int) ToI(op.substr(1)); i++)
            {
               const uint32 w = REPLY_BASE + 900000 + sh.preCount; sh.prePending++; sh.repliesInFlight++; sh.expectedReplies.push_back(w);
               if (t.PreReply(w).IsError()) thr::ReportAndExit("reply_send_failed", "SendMessageToOwner failed while the internal thread was not running");
               sh.preCount++; sh.repliesDone++; res.stats.inc("p.reply_queued_before_start");
            }
         }
         else if (((strictOwner)||(mechOwner))&&(op.size() > 1)&&(op[0] == 'G')) res.stats.inc("p.strict_owner_skipped_poll");
         else if (op == "G0") (void) GetReply(0);
         else if (op == "GN") {if ((running)&&(sh.replies.size() < TotalOwed())) (void) GetReply(MUSCLE_TIME_NEVER);}   // waiting forever is only compliant when a reply is still owed
         else if ((op.size() > 1)&&(op[0] == 'G')) (void) GetReply(thr::Now() + ToU(op.substr(1)));
         else if (op == "DRAIN") {if (running) {thr::WaitUntil([&]() {return sh.extrasRunning == 0;}); Drain();}}
         else if (op == "SHUT1") Shutdown(true);
         else if (op == "SHUT0") Shutdown(false);
         else if (op == "SHUT2")
         {
            if (running)
            {
               thr::WaitUntil([&]() {return sh.extrasRunning == 0;});
               sh.armed = false;
               t.ShutdownInternalThread(true); res.stats.inc("shutdowns"); running = false; sh.threadUp = false;   // every Message queued before the request is handled (and answered) before the thread exits
               int guard = 0; while((sh.replies.size() < TotalOwed())&&(guard++ < 1000)) {if (!GetReply(0)) break;}   // after the join: the replies are still there to be polled
               res.stats.inc("p.replies_collected_after_join");
            }
         }
         else if (op == "WAIT") {if (running) {(void) t.WaitForInternalThreadToExit(); running = false; sh.threadUp = false;}}
      }
      if (!running) {sh.threadUp = true;}           // release extra senders that never saw the thread start (minimised plans)
      thr::WaitUntil([&]() {return sh.extrasRunning == 0;});
      if (running) {Drain(); sh.armed = false; t.ShutdownInternalThread(true); running = false;}
      // oracle: exactly once, per-sender order, replies in the order the inside saw the requests
      uint32 next[8] = {0,0,0,0,0,0,0,0};
      for (uint32 w : sh.insideLog)
      {
         const uint32 sender = w / 100000, seq = w % 100000;
         if (sender >= 8) thr::ReportAndExit("alien_message", "the internal thread received a Message nobody sent (what=" + U(w) + ")");
         if (seq != next[sender]) thr::ReportAndExit((seq < next[sender]) ? "message_duplicated_or_reordered" : "message_lost_or_reordered", "the internal thread received sender " + U(sender) + " seq " + U(seq) + " where seq " + U(next[sender]) + " was due");
         next[sender]++;
      }
      // every Message accepted while (or before) the thread ran and before its shutdown request must have been received
      for (int s=0; s<8; s++) if (next[s] != (uint32) sh.sentTo[s].size()) thr::ReportAndExit("message_lost", "sender " + I(s) + " handed over " + U(sh.sentTo[s].size()) + " Messages but the internal thread received " + U(next[s]));
      if (sh.prePending > 0) {sh.expectedReplies.resize(sh.expectedReplies.size() - (size_t) sh.prePending); sh.preCount -= (uint32) sh.prePending; sh.prePending = 0;}   // queued before a start that never came (minimised plans): nobody was owed them
      if (sh.replies.size() != sh.expectedReplies.size()) thr::ReportAndExit((sh.replies.size() < sh.expectedReplies.size()) ? "reply_lost" : "reply_duplicated", "the internal thread (and its subclass before start) sent " + U(sh.expectedReplies.size()) + " replies, the owner received " + U(sh.replies.size()));
      for (size_t i=0; i<sh.replies.size(); i++) if (sh.replies[i] != sh.expectedReplies[i]) thr::ReportAndExit("reply_reordered", "reply #" + U(i) + " is " + U(sh.replies[i]) + " but the " + U(i) + "th reply sent was " + U(sh.expectedReplies[i]));
      if (sh.expectedReplies.size() != sh.insideLog.size() + sh.preCount) thr::ReportAndExit("reply_lost", "harness bookkeeping: " + U(sh.insideLog.size()) + " requests handled but " + U(sh.expectedReplies.size() - sh.preCount) + " echo replies sent");
   }
   thr::SetInvariant(NULL); g_sh = NULL;
   thrc::FillSchedStats(res);
   thr::End();
   WatchdogDisarm();
   res.stats.inc(cfg.i("sockets", 1) ? "runs_socket_signalling" : "runs_waitcondition_signalling");
   if (cfg.i("ownloop", 0) == 1) res.stats.inc("runs_own_event_loop"); if ((cfg.i("ownloop", 0) == 2)&&(cfg.i("sockets", 1))) res.stats.inc("runs_select_first_event_loop");
   if ((cfg.i("ownersel", 0))&&(cfg.i("sockets", 1))) res.stats.inc((cfg.i("ownersel", 0) == 3) ? "runs_owner_woken_through_callback_mechanism" : ((cfg.i("ownersel", 0) == 2) ? "runs_owner_strictly_event_driven" : "runs_owner_select_first")); if (cfg.i("realcv", 0)) res.stats.inc("runs_real_condition_variable_code");
   res.nontrivial = (sh.insideLog.size() >= 1)&&(thr::Stats().switches >= 2);
}

}} // namespace vs::c11
