// sim/props/c05.h -- C05: a routed Message reaches exactly the sessions its patterns select, once each (netsim/server)
#pragma once
#include "c04.h"

namespace vs { namespace c05 {

using namespace gen;

static const char * kNames5[] = {"a", "b", "ab", "c", "1", "2", "12", "a*", "a,b"};   // (the last two: node names that contain a pattern character -- a literal star, a literal comma)
inline std::string Name5(Rng & r) {return kNames5[r.below(r.oneIn(4) ? 9 : 4)];}
inline std::string RelPath5(Rng & r) {std::string p = Name5(r); const int d = (int) r.below(3); for (int i=0; i<d; i++) p += "/" + Name5(r); return p;}
// the full documented syntax: escapes, ~negation, <n-m> ranges, nested alternation, comma lists, classes
inline std::string FullClause(Rng & r)
{
   switch(r.below(16))
   {
      case 14: return "a\\,b,c";    case 15: return r.oneIn(2) ? "a\\,b" : "c,a\\,b";   // an escaped comma inside a comma list: the node named "a,b" (and the one named "c")
      case 0: return "~a";            case 1: return "<1-2>";        case 2: return "<2->";         case 3: return "(a|(b|c))";
      case 4: return "a\\*";          case 5: return "~(a|b)";       case 6: return "[!a]";         case 7: return "?*";
      case 8: return "a,b,c";         case 9: return "<-1,12>";      case 10: return "*\\*";        case 11: return "[a-c]?";
      case 12: return "~*";           default: return Clause(r);
   }
}
inline std::string Keys(Rng & r, int hosts, bool full)
{
   std::string p = full ? FullClause(r) : Clause(r); const int d = (int) r.below(3); for (int i=0; i<d; i++) p += "/" + ((full && r.oneIn(2)) ? FullClause(r) : Clause(r));
   const uint32_t k = r.below(16);
   if (k == 0) return "/*/*";
   if (k <= 2) return "/h" + I(r.below((uint32_t) hosts)) + "/*/" + p;
   if (k == 3) return "/*/*/" + p;
   if (k == 4) return "/*/" + I(r.below(4)) + "/" + p;     // one session id
   if (k <= 6) return "/h" + I(r.below((uint32_t) hosts)) + "/" + I(r.below(5)) + "/" + RelPath5(r);   // entirely literal (the direct-lookup fast path)
   return p;
}

// routed Messages also carry the two NODE-AWARE filter kinds (child count, node name): they look at the matched node, not only at its payload
inline std::string Filter5(Rng & r) {if (r.oneIn(4)) {if (r.oneIn(2)) return std::string("c") + "><=!GL"[r.below(6)] + I(r.below(3)); return "n" + gen::Name(r) + ";";} return gen::Filter(r);}
inline Plan Gen(uint64_t seed)
{
   gen::ClauseModeScope clauseMode(seed);
   Rng cfg(seed, "config"), wl(seed, "workload"), fl(seed, "faults");
   Plan p;
   const int clients = 2 + (int) cfg.below(4), hosts = 1 + (int) cfg.below(3);
   const bool faultFree = cfg.oneIn(4), full = cfg.pct(40);
   p.push_back("cfg prop=C05 clients=" + I(clients) + " hosts=" + I(hosts) + " faultfree=" + I(faultFree) + " fullsyntax=" + I(full));
   GenState g(clients, hosts);
   for (int c=0; c<clients; c++) if ((c < 2)||(cfg.pct(75))) GenConnect(p, g, cfg, fl, c, faultFree, 35);
   p.push_back("step 2");
   const int nops = Rng(seed, "longrun").oneIn(20) ? (250 + (int) wl.below(350)) : (10 + (int) wl.below(wl.oneIn(4) ? 70 : 30));
   int sinceQuiesce = 0;
   for (int op=0; op<nops; op++)
   {
      int c = PickUp(g, wl);
      if (c < 0) {c = (int) wl.below((uint32_t) clients); GenConnect(p, g, cfg, fl, c, faultFree, 35); continue;}
      const std::string sendPfx = "send " + I(c) + " ";
      const uint32_t k = wl.below(100);
      if (k < 30)
      {
         std::string s = "setdata -"; const int n = wl.oneIn(3) ? (2 + (int) wl.below(3)) : 1;
         for (int i=0; i<n; i++) s += " " + Esc(RelPath5(wl)) + "=" + U(g.val++) + ":" + (wl.oneIn(4) ? std::string("-") : I(wl.below(4)));
         p.push_back(sendPfx + s);
      }
      else if (k < 37) p.push_back(sendPfx + "rmdata 0 " + Esc(wl.oneIn(2) ? RelPath5(wl) : Clause(wl)));
      else if (k < 75)
      {
         // a routed Message: 0 keys = default route or broadcast; 1-3 keys of (possibly) different depths, optional filters, sometimes a forged sender
         std::string s = "route " + I(g.routeSeq++) + " " + (wl.oneIn(4) ? "1" : "0");
         const int nk = wl.oneIn(6) ? 0 : (1 + (int) wl.below(wl.oneIn(3) ? 3 : 2));
         for (int i=0; i<nk; i++) {std::string key = Keys(wl, hosts, full); if (wl.oneIn(5)) key += "^" + Filter5(wl); s += " " + Esc(key);}
         p.push_back(sendPfx + s);
      }
      else if (k < 80) {std::string s = "routedefault"; const int nk = 1 + (int) wl.below(2); const bool df = wl.oneIn(2); for (int i=0; i<nk; i++) {std::string key = Keys(wl, hosts, false); if (df) key += "^" + Filter(wl); s += " " + Esc(key);} p.push_back(sendPfx + s);}
      else if (k < 82)
      {
         const uint32_t q = wl.below(6);
         if (q < 2) p.push_back(sendPfx + (q ? "rmroute" : (wl.oneIn(2) ? "rmroutefilters" : "rmroutefilters2")));   // (rmroutefilters2: one REMOVEPARAMETERS naming the route's filters AND further parameters)
         else if (q < 4) p.push_back(sendPfx + "routebare " + I(g.routeSeq++));   // a routed Message without any field (broadcast / default route)
         else if (wl.oneIn(3)) p.push_back(sendPfx + "jettisontrees" + (wl.oneIn(2) ? std::string() : std::string(wl.oneIn(2) ? " *" : " t1")));   /* the subtree-download variant: nothing this workload queues is one of those results */
         else p.push_back(sendPfx + "jettison" + (wl.oneIn(2) ? std::string() : (" " + Esc(Keys(wl, hosts, false)))));   // a receiver cancels its queued GETDATA results: routed Messages queued for it are none of those
      }
      else if (k < 86) {const uint32_t how = wl.below(10); if (how < 6) p.push_back("close " + I(c)); else if (how < 9) p.push_back("cut " + I(c) + " " + U(wl.below(3000))); else p.push_back("reset " + I(c)); g.up[c] = false;}
      else if (k < 90) {const int n = (int) wl.below((uint32_t) clients); if (!g.up[n]) GenConnect(p, g, cfg, fl, n, faultFree, 35);}
      else if ((k < 94)&&(!faultFree))
      {
         switch(fl.below(4)) {case 0: p.push_back("noread " + I(c) + " " + I(fl.below(2))); break; case 1: p.push_back("stall " + I(c) + " " + I(fl.below(2))); break;
                              case 2: p.push_back("cap " + I(c) + " " + U(fl.oneIn(2) ? 0 : (64 + fl.below(2000)))); break; default: p.push_back("step " + I(1 + fl.below(6))); break;}
      }
      else GenPump(p, g, wl);
      if (wl.pct(55)) GenPump(p, g, wl);
      if ((++sinceQuiesce >= 8 + (int) wl.below(10))||(wl.oneIn(12))) {p.push_back("quiesce"); sinceQuiesce = 0;}
   }
   return p;
}

inline void Exec(const Plan & plan, RunResult & res)
{
   srv::Interp in(plan, res);
   in.sim.orc.route = true;
   in.Run();
   const Stats & st = res.stats;
   auto get = [&](const char * k) {auto it = st.c.find(k); return (it == st.c.end()) ? (uint64_t) 0 : it->second;};
   res.nontrivial = (get("routed_processed") >= 1)&&(get("sessions_connected") >= 2);
   if (Cfg(plan).i("faultfree", 0)) res.stats.inc("runs_fault_free"); else res.stats.inc("runs_with_faults");
}

}} // namespace vs::c05
