// sim/props/server_worker.cpp -- netsim/server worker: C04 C05 C06 C07 C13
#include "c04.h"
#if __has_include("c13.h")
# include "c13.h"
#endif
#if __has_include("c05.h")
# include "c05.h"
#endif
#include "c10h.h"
#include "c20s.h"
#if __has_include("c06.h")
# include "c06.h"
#endif
#if __has_include("c07.h")
# include "c07.h"
#else
namespace vs { namespace srv { muscle::MessageRef HostileMessage(uint64_t, int) {return muscle::MessageRef();} }}
#endif

namespace muscle {extern void MuscleVerifSimResetGlobalIDCounters();}
using namespace vs;
static muscle::CompleteSetupSystem * g_css = NULL;
static void BetweenRuns()
{
   SimClockReset();
   SimRandomReset(4242);
   muscle::MuscleVerifSimResetGlobalIDCounters();
   muscle::AbstractObjectRecycler::GlobalFlushAllCachedObjects();
}
static void Warmup()
{
   g_css = new muscle::CompleteSetupSystem;
   muscle::SetConsoleLogLevel(g_verbose ? muscle::MUSCLE_LOG_DEBUG : muscle::MUSCLE_LOG_NONE);
   // touch the lazily constructed statics/pools the workloads use, then reset
   for (uint64_t s=1; s<=3; s++) {BetweenRuns(); RunResult r; Plan p = c04::Gen(s); try {c04::Exec(p, r);} catch(...) {}}
   BetweenRuns();
}
static const PropDef kProps[] = {
   {"C04", c04::Gen, c04::Exec, false},
   {"C10H", c10h::Gen, c10h::Exec, false},
   {"C20S", c20s::Gen, c20s::Exec, false},
#if __has_include("c13.h")
   {"C13", c13::Gen, c13::Exec, false},
#endif
#if __has_include("c05.h")
   {"C05", c05::Gen, c05::Exec, false},
#endif
#if __has_include("c06.h")
   {"C06", c06::Gen, c06::Exec, false},
#endif
#if __has_include("c07.h")
   {"C07", c07::Gen, c07::Exec, false},
#endif
};
int main(int argc, char ** argv)
{
   WorkerDef d = {"netsim/server", kProps, (int)(sizeof(kProps)/sizeof(kProps[0])), Warmup, BetweenRuns};
   return WorkerMain(argc, argv, d);
}
