// sim/props/c07.h -- C07: one client's traffic can never hang or crash the server (netsim/server)
// A hostile client sends structurally valid Messages built per handler (template that satisfies the handler's preconditions, then one
// argument perturbed), mostly while not reading its own replies; victims run C04 traffic with their oracles on; a witness pings.
#pragma once
#include "c04.h"

namespace vs { namespace srv {

static const char * kHFieldNames[] = {PR_NAME_KEYS, PR_NAME_FILTERS, PR_NAME_REMOVED_DATAITEMS, PR_NAME_SUBSCRIBE_QUIETLY, PR_NAME_REMOVE_QUIETLY, PR_NAME_FLAGS, PR_NAME_REFLECT_TO_SELF,
   PR_NAME_DISABLE_SUBSCRIPTIONS, PR_NAME_MAX_UPDATE_MESSAGE_ITEMS, PR_NAME_KEEPALIVE_INTERVAL_SECONDS, PR_NAME_PRIVILEGE_BITS, PR_NAME_SESSION, PR_NAME_TREE_REQUEST_ID, PR_NAME_REPLY_ENCODING,
   PR_NAME_MAXDEPTH, PR_NAME_REMOVE_FROM_INDEX, PR_NAME_ROUTE_GATEWAY_TO_NEIGHBORS, PR_NAME_ROUTE_NEIGHBORS_TO_GATEWAY, "SUBSCRIBE:*", "SUBSCRIBE:a/*", "SUBSCRIBE:/*/*/a", "a", "a/b", "a/b/c", "*", "I0", "", "/", "a//b", "a/", "..",
   "(a|", "[a-", "<1-3>", "~a", "\\", "a,b", "SUBSCRIBE:", "SUBSCRIBE:(", "*/*", "/*/*/*/*", "x"};
static const char * kHStrings[] = {"*", "a", "a/b", "a/*", "/*/*/a", "/*/*/*", "", "(a|b", "[z-a]", "<5-1>", "~*", "\\", "a,b,c", "*/*/*/*/*/*/*/*/*/*", "I0", "!Rmv", "zzz", "SUBSCRIBE:*", "SUBSCRIBE:a/*", "!SnKy", ".*", "^$",
   "a{99999}", "((((((((((a))))))))))", "***************************a", "[[[[", "<->", "<99999999999999999999-1>", "a\\", "\\\\\\", "(|)", "~~~~a", "*,*,*", "b", "ab", "c", "?", "[a-c]*",
   "`", "~`", "`^a.*$", "`(", "a/`", "`/`", "<1-2>/`", "<0-9>", "<3>", "~<1-3>", "<1-3>/a", "\\<1-3>", "a/<0-5>/b"};   // the documented backtick "raw regex" prefix (incl. an EMPTY regex behind it), numeric ranges in every position
template<size_t N> inline const char * PickStr(Rng & r, const char * (&a)[N]) {return a[r.below((uint32_t) N)];}

inline MessageRef HostileFilterArchive(Rng & r, int depth)
{
   // half the time a filter the library itself archived (valid), otherwise an arbitrary Message with a QUERY_FILTER_TYPE_* what-code and plausible-but-wrong fields
   if (r.oneIn(2))
   {
      // archives produced by the library's own SaveToArchive, over every filter kind (so that the handler really evaluates a filter)
      ConstQueryFilterRef qf;
      static const char * strs[] = {"a", "b", "ab", "c", "I0", "*", "a*", "?", "[a-c]*", "(a|b)"};
      switch(r.below(10))
      {
         case 0: qf.SetRef(new NodeNameQueryFilter((uint8) r.below(StringQueryFilter::NUM_STRING_OPERATORS), PickStr(r, strs))); break;
         case 1: qf.SetRef(new ChildCountQueryFilter((uint8) r.below(Int32QueryFilter::NUM_NUMERIC_OPERATORS), (int32) r.below(3))); break;
         case 2: qf.SetRef(new StringQueryFilter("s", (uint8) r.below(StringQueryFilter::NUM_STRING_OPERATORS), PickStr(r, strs))); break;
         case 3: {ConstQueryFilterRef k1(new NodeNameQueryFilter(StringQueryFilter::OP_SIMPLE_WILDCARD_MATCH, "a*")), k2(new WhatCodeQueryFilter(0, 50)); qf.SetRef(r.oneIn(2) ? (QueryFilter *) new NandQueryFilter(k1, k2) : (QueryFilter *) new XorQueryFilter(k1, k2));} break;
         case 4: {ConstQueryFilterRef k1(new ValueExistsQueryFilter("v")); qf.SetRef(new NorQueryFilter(k1));} break;
         case 5: qf.SetRef(new MessageQueryFilter(ConstQueryFilterRef(new WhatCodeQueryFilter(0, 5)), ConstMessageRef(), String("m"))); break;
         default: {match::Filt f = match::Filt::Parse(gen::Filter(r)); qf = f.ToMuscle();} break;
      }
      if (qf()) {MessageRef m = GetMessageFromPool(); if (qf()->SaveToArchive(*m()).IsOK()) return m;}
   }
   MessageRef m = GetMessageFromPool((uint32)(QUERY_FILTER_TYPE_WHATCODE + (int) r.below(26) - 2));
   static const char * names[] = {"fn", "val", "op", "idx", "kid", "min", "max", "ad", "dv", "mop", "msk", "tc", "nm", "spt", "ss", "sub", "cfn"};
   const int nf = (int) r.below(6);
   for (int i=0; i<nf; i++)
   {
      const char * n = PickStr(r, names);
      switch(r.below(7))
      {
         case 0: (void) m()->AddInt32(n, (int32) r.below(9) - 2); break;
         case 1: (void) m()->AddString(n, PickStr(r, kHStrings)); break;
         case 2: if (depth < 4) (void) m()->AddMessage(n, HostileFilterArchive(r, depth+1)); break;
         case 3: (void) m()->AddInt8(n, (int8) r.u32()); break;
         case 4: (void) m()->AddInt32(n, r.oneIn(2) ? (int32) 0x7fffffff : (int32) 0x80000000); break;
         case 5: (void) m()->AddInt64(n, (int64) r.u64()); break;
         default: (void) m()->AddBool(n, r.oneIn(2)); break;
      }
   }
   return m;
}
inline void AddHostileField(Message & m, Rng & r, int depth);
inline MessageRef HostileFlat(Rng & r, int depth)
{
   uint32 what;
   switch(r.below(6)) {case 0: what = PR_COMMAND_SETPARAMETERS + r.below(34); break; case 1: what = PR_COMMAND_SETDATA; break; case 2: what = PR_COMMAND_JETTISONRESULTS; break;
                       case 3: what = r.oneIn(2) ? PR_COMMAND_REMOVEPARAMETERS : PR_COMMAND_SETPARAMETERS; break; case 4: what = PR_COMMAND_BATCH; break; default: what = r.u32(); break;}
   MessageRef m = GetMessageFromPool(what);
   const int nf = (int) r.below(5); for (int i=0; i<nf; i++) AddHostileField(*m(), r, depth);
   if ((what == PR_COMMAND_BATCH)&&(depth < 4)) {const int k = (int) r.below(4); for (int i=0; i<k; i++) (void) m()->AddMessage(PR_NAME_KEYS, HostileFlat(r, depth+1));}
   return m;
}
inline void AddHostileField(Message & m, Rng & r, int depth)
{
   const char * n = PickStr(r, kHFieldNames);
   switch(r.below(8))
   {
      case 0: (void) m.AddString(n, PickStr(r, kHStrings)); if (r.oneIn(2)) (void) m.AddString(n, PickStr(r, kHStrings)); break;
      case 1: {static const int32 iv[] = {0, 1, -1, 2, 50, 1000, -1000, (int32) 0x7fffffff, (int32) 0x80000000, 65536}; (void) m.AddInt32(n, iv[r.below(10)]);} break;
      case 2: if (depth < 4) (void) m.AddMessage(n, r.oneIn(2) ? HostileFilterArchive(r, 0) : HostileFlat(r, depth+1)); break;
      case 3: (void) m.AddBool(n, true); break;
      case 4: {SetDataNodeFlags f; f.SetWord(0, r.below(64)); (void) m.AddFlat(n, f);} break;
      case 5: (void) m.AddInt64(n, (int64) r.u64()); break;
      case 6: {uint8 raw[8]; for (int k=0; k<8; k++) raw[k] = (uint8) r.u32(); (void) m.AddData(n, B_RAW_TYPE, raw, r.below(9));} break;
      default: (void) m.AddFloat(n, 1.5f); break;
   }
}
// existing-looking relative paths / patterns (the victims and the hostile client use the same small alphabet)
inline std::string HPath(Rng & r) {if (r.oneIn(6)) {std::string p = gen::Name(r); p += "/I" + I(r.below(4)); return p;} return gen::RelPath(r);}   // sometimes a child named like a server-generated ordered-child id
inline std::string HKey(Rng & r) {switch(r.below(6)) {case 0: return "*"; case 1: return "*/*"; case 2: return "/*/*/*"; case 3: return gen::RelPath(r); case 4: return "/*/*/" + gen::Clause(r) + "/*"; default: return gen::Clause(r);}}

enum {HT_FLAT = 0, HT_SETPARAMS, HT_REMOVEPARAMS, HT_SETDATA, HT_REMOVEDATA, HT_GETDATA, HT_JETTISONRESULTS, HT_JETTISONTREES, HT_INSERTORDERED, HT_REORDER, HT_GETDATATREES,
      HT_BATCH_DEEP, HT_MISC, HT_PRIVILEGED, HT_SUB_HOSTILE_FILTER, HT_PARAM_VALUES, HT_ROUTED, HT_RESERVED, HT_DEEP_PATH, HT_BIG, NUM_HT};

inline MessageRef HostileMessage(uint64_t gseed, int tmpl)
{
   Rng r(gseed, "hostile");
   MessageRef m;
   const bool perturb = r.pct(40);   // otherwise the template's well-shaped form goes out unchanged
   switch(((tmpl % NUM_HT) + NUM_HT) % NUM_HT)
   {
      case HT_FLAT: return HostileFlat(r, 0);
      case HT_SETPARAMS:
         m = GetMessageFromPool(PR_COMMAND_SETPARAMETERS);
         {const int n = 1 + (int) r.below(3); for (int i=0; i<n; i++) {const std::string fn = "SUBSCRIBE:" + HKey(r); if (r.oneIn(2)) (void) m()->AddBool(fn.c_str(), true); else (void) m()->AddMessage(fn.c_str(), HostileFilterArchive(r, 0));}}
         if (r.oneIn(3)) (void) m()->AddBool(PR_NAME_SUBSCRIBE_QUIETLY, true);
      break;
      case HT_REMOVEPARAMS:
         m = GetMessageFromPool(PR_COMMAND_REMOVEPARAMETERS);
         {const int n = 1 + (int) r.below(3); for (int i=0; i<n; i++) (void) m()->AddString(PR_NAME_KEYS, r.oneIn(2) ? "SUBSCRIBE:*" : (r.oneIn(2) ? "*" : PickStr(r, kHStrings)));}
      break;
      case HT_SETDATA:
         m = GetMessageFromPool(PR_COMMAND_SETDATA);
         {const int n = 1 + (int) r.below(4); for (int i=0; i<n; i++)
            {
               const std::string hp = HPath(r);
               if (r.oneIn(2)) (void) m()->AddMessage(hp.c_str(), GenMessage(r.u64(), r.oneIn(4) ? MSGCLS_SMALL : MSGCLS_TINY));
               else {(void) m()->AddMessage(hp.c_str(), Payload(r.below(60), I(r.below(4)))); if (r.oneIn(2)) (void) m()->AddMessage(hp.c_str(), Payload(r.below(60), r.oneIn(4) ? std::string("-") : I(r.below(4))));}   // several payloads for ONE node in one command: applied in order
            }}
         if (r.oneIn(2)) {SetDataNodeFlags f; f.SetWord(0, r.below(32)); (void) m()->AddFlat(PR_NAME_FLAGS, f);} else if (r.oneIn(3)) (void) m()->AddInt32(PR_NAME_FLAGS, (int32) r.below(64));
      break;
      case HT_REMOVEDATA: case HT_GETDATA:
         m = GetMessageFromPool((tmpl % NUM_HT == HT_REMOVEDATA) ? PR_COMMAND_REMOVEDATA : PR_COMMAND_GETDATA);
         {const int n = 1 + (int) r.below(3); for (int i=0; i<n; i++) {(void) m()->AddString(PR_NAME_KEYS, HKey(r).c_str()); if (r.oneIn(2)) (void) m()->AddMessage(PR_NAME_FILTERS, HostileFilterArchive(r, 0));}}
      break;
      case HT_JETTISONRESULTS:
         m = GetMessageFromPool(PR_COMMAND_JETTISONRESULTS);
         if (!r.oneIn(5)) {const int n = 1 + (int) r.below(2); for (int i=0; i<n; i++) {(void) m()->AddString(PR_NAME_KEYS, HKey(r).c_str()); if (r.oneIn(2)) (void) m()->AddMessage(PR_NAME_FILTERS, HostileFilterArchive(r, 0));}}
      break;
      case HT_JETTISONTREES:
         m = GetMessageFromPool(PR_COMMAND_JETTISONDATATREES);
         if (r.oneIn(2)) (void) m()->AddString(PR_NAME_TREE_REQUEST_ID, r.oneIn(2) ? "t*" : PickStr(r, kHStrings));
      break;
      case HT_INSERTORDERED:
         m = GetMessageFromPool(PR_COMMAND_INSERTORDEREDDATA);
         (void) m()->AddString(PR_NAME_KEYS, r.oneIn(2) ? HPath(r).c_str() : HKey(r).c_str());
         {const int n = 1 + (int) r.below(3); for (int i=0; i<n; i++) (void) m()->AddMessage(r.oneIn(2) ? "I0" : PickStr(r, kHStrings), GenMessage(r.u64(), MSGCLS_TINY));}
      break;
      case HT_REORDER:
         m = GetMessageFromPool(PR_COMMAND_REORDERDATA);
         {const int n = 1 + (int) r.below(3); for (int i=0; i<n; i++)
            {
               const std::string hp = HPath(r); const std::string self = hp.substr(hp.rfind('/')+1);   // (sometimes "move it before itself", also for a wildcard that matches the named sibling itself, also under a parent that keeps no index)
               const bool star = r.oneIn(2);
               (void) m()->AddString((star ? (hp.substr(0, hp.size()-self.size()) + "*") : hp).c_str(), r.oneIn(4) ? self.c_str() : (r.oneIn(3) ? PR_NAME_REMOVE_FROM_INDEX : (r.oneIn(2) ? "I0" : PickStr(r, kHStrings))));
            }}
      break;
      case HT_GETDATATREES:
         m = GetMessageFromPool(PR_COMMAND_GETDATATREES);
         (void) m()->AddString(PR_NAME_KEYS, HKey(r).c_str());
         if (r.oneIn(2)) (void) m()->AddString(PR_NAME_TREE_REQUEST_ID, "t1");
         if (r.oneIn(2)) {static const int32 md[] = {0, 1, -1, 2, (int32) 0x7fffffff, (int32) 0x80000000}; (void) m()->AddInt32(PR_NAME_MAXDEPTH, md[r.below(6)]);}
      break;
      case HT_BATCH_DEEP:
      {
         // BATCH nested to and beyond the cap of 100, built iteratively
         const int depth = r.oneIn(2) ? (95 + (int) r.below(12)) : (1 + (int) r.below(8));
         MessageRef inner = GetMessageFromPool(PR_COMMAND_SETDATA); (void) inner()->AddMessage(HPath(r).c_str(), GenMessage(r.u64(), MSGCLS_TINY));
         for (int i=0; i<depth; i++) {MessageRef b = GetMessageFromPool(PR_COMMAND_BATCH); (void) b()->AddMessage(PR_NAME_KEYS, inner); if (r.oneIn(8)) (void) b()->AddMessage(PR_NAME_KEYS, GetMessageFromPool(PR_COMMAND_NOOP)); inner = b;}
         return inner;
      }
      case HT_MISC:
         {static const uint32 w[] = {PR_COMMAND_PING, PR_COMMAND_NOOP, PR_COMMAND_GETPARAMETERS, PR_COMMAND_SETDATATREES}; m = GetMessageFromPool(w[r.below(4)]);}
         if (r.oneIn(2)) (void) m()->AddMessage("payload", GenMessage(r.u64(), MSGCLS_SMALL));
      break;
      case HT_PRIVILEGED:
         {static const uint32 w[] = {PR_COMMAND_KICK, PR_COMMAND_ADDBANS, PR_COMMAND_REMOVEBANS, PR_COMMAND_ADDREQUIRES, PR_COMMAND_REMOVEREQUIRES}; m = GetMessageFromPool(w[r.below(5)]);}
         (void) m()->AddString(PR_NAME_KEYS, r.oneIn(2) ? "*" : PickStr(r, kHStrings));
      break;
      case HT_SUB_HOSTILE_FILTER:
         m = GetMessageFromPool(PR_COMMAND_SETPARAMETERS);
         (void) m()->AddMessage(("SUBSCRIBE:" + HKey(r)).c_str(), HostileFilterArchive(r, 0));
         (void) m()->AddMessage(PR_NAME_FILTERS, HostileFilterArchive(r, 0)); (void) m()->AddString(PR_NAME_KEYS, HKey(r).c_str());
      break;
      case HT_PARAM_VALUES:
      {
         m = GetMessageFromPool(PR_COMMAND_SETPARAMETERS);
         static const char * pn[] = {PR_NAME_MAX_UPDATE_MESSAGE_ITEMS, PR_NAME_KEEPALIVE_INTERVAL_SECONDS, PR_NAME_REPLY_ENCODING, PR_NAME_DISABLE_SUBSCRIPTIONS, PR_NAME_ROUTE_GATEWAY_TO_NEIGHBORS, PR_NAME_ROUTE_NEIGHBORS_TO_GATEWAY, PR_NAME_REFLECT_TO_SELF, PR_NAME_PRIVILEGE_BITS};
         static const int32 pv[] = {0, 1, -1, 2, (int32) 0x7fffffff, (int32) 0x80000000, 1164862256, 1164862262, 1164862266, 100000};
         const int n = 1 + (int) r.below(3); for (int i=0; i<n; i++) (void) m()->AddInt32(pn[r.below(8)], pv[r.below(10)]);
      }
      break;
      case HT_ROUTED:
         m = GetMessageFromPool(r.oneIn(2) ? (uint32) 0x12345678 : r.u32());
         {const int n = (int) r.below(4); for (int i=0; i<n; i++) {(void) m()->AddString(PR_NAME_KEYS, r.oneIn(2) ? HKey(r).c_str() : PickStr(r, kHStrings)); if (r.oneIn(2)) (void) m()->AddMessage(PR_NAME_FILTERS, HostileFilterArchive(r, 0));}}
         (void) m()->AddString(PR_NAME_SESSION, "31337");
      break;
      case HT_RESERVED: m = GetMessageFromPool(PR_COMMAND_RESERVED21 + r.below(14)); break;
      case HT_DEEP_PATH:
      {
         // a node path up to and beyond MUSCLE_MAX_NODE_DEPTH, and a pattern with very many clauses
         m = GetMessageFromPool(r.oneIn(2) ? PR_COMMAND_SETDATA : PR_COMMAND_GETDATA);
         std::string path; int d = r.oneIn(2) ? (95 + (int) r.below(12)) : (20 + (int) r.below(30));
         if ((m()->what == PR_COMMAND_SETDATA)&&(r.oneIn(5))) d = 20000 + (int) r.below(50000);   // tens of thousands of levels: only the depth cap stands between this and a tree whose removal (or tear-down) recurses once per level
         for (int i=0; i<d; i++) {if (i) path += "/"; path += (m()->what == PR_COMMAND_SETDATA) ? "d" : "*";}
         if (m()->what == PR_COMMAND_SETDATA) (void) m()->AddMessage(path.c_str(), GetMessageFromPool(1)); else (void) m()->AddString(PR_NAME_KEYS, path.c_str());
      }
      break;
      default /* HT_BIG */:
         m = GetMessageFromPool(PR_COMMAND_SETDATA);
         {const int n = 20 + (int) r.below(60); for (int i=0; i<n; i++) {char nm[16]; snprintf(nm, sizeof(nm), "n%d", i); (void) m()->AddMessage((std::string(gen::kNames[r.below(4)]) + "/" + nm).c_str(), GetMessageFromPool((uint32) i));}}
      break;
   }
   if ((perturb)&&(m())) {const int n = 1 + (int) r.below(2); for (int i=0; i<n; i++) AddHostileField(*m(), r, 0);}
   return m;
}

}} // namespace vs::srv

namespace vs { namespace c07 {

using namespace gen;

inline Plan Gen(uint64_t seed)
{
   Rng cfg(seed, "config"), wl(seed, "workload"), fl(seed, "faults");
   Plan p;
   // conn 0 = hostile, conn 1 (and maybe 2) = victims running C04 traffic, last conn = witness
   const int victims = 1 + (int) cfg.below(2); const int witness = 1 + victims; const int clients = witness + 1;
   const bool faultFree = cfg.oneIn(5);
   p.push_back("cfg prop=C07 clients=" + I(clients) + " hosts=2 faultfree=" + I(faultFree) + " hostile=0 witness=" + I(witness));
   // one run in four: every server-side transport has an output stall limit (as TCP sockets do), and some quiescent points are reached over a slow link
   Rng sr(seed, "stall"); const bool stallRun = sr.oneIn(4); if (stallRun) p.push_back("cfg stall=" + U(sr.oneIn(3) ? 3000000ULL : 180000000ULL));
   GenState g(clients, 2);
   for (int c=0; c<clients; c++) GenConnect(p, g, cfg, fl, c, faultFree || (c == witness), 0);
   p.push_back("step 2");
   // prelude: victims populate the tree; the hostile client subscribes to everything so that replies pile up in its output queue
   for (int v=1; v<=victims; v++) {p.push_back("send " + I(v) + " " + SetDataCmd(g, wl)); p.push_back("send " + I(v) + " " + SetDataCmd(g, wl)); p.push_back("send " + I(v) + " sub " + I(g.opid++) + " 0 * " + ((v == 1) ? std::string("-") : Filter(wl)));
                                     if (wl.oneIn(2)) p.push_back("send " + I(v) + " sub " + I(g.opid++) + " 0 */* " + (wl.oneIn(2) ? Filter(wl) : std::string("-")));}
   p.push_back("send 0 sub " + I(g.opid++) + " 0 * -"); p.push_back("send 0 sub " + I(g.opid++) + " 0 */* -");
   p.push_back("step 4");
   if (cfg.pct(80)) p.push_back("noread 0 1");
   const int nops = 10 + (int) wl.below(wl.oneIn(4) ? 110 : 40);
   int ping = 0, sinceQuiesce = 0;
   for (int op=0; op<nops; op++)
   {
      const uint32_t k = wl.below(100);
      if (k < 55)
      {
         p.push_back("send 0 hostile " + U(wl.u64() & 0xffffffffffffULL) + " " + I(wl.pct(85) ? (1 + (int) wl.below(srv::NUM_HT - 1)) : 0));
         if (wl.pct(70)) p.push_back("step " + I(1 + wl.below(3)));
      }
      else if (k < 75) {const int v = 1 + (int) wl.below((uint32_t) victims); p.push_back("send " + I(v) + " " + (wl.oneIn(4) ? RmDataCmd(wl) : SetDataCmd(g, wl))); p.push_back("step " + I(1 + wl.below(2)));}
      else if (k < 78) p.push_back("noread 0 " + I(wl.below(2)));
      else if (k < 80) {if (wl.oneIn(3)) {p.push_back("flood 0 1"); p.push_back("send " + I(witness) + " ping " + I(++ping)); p.push_back("step " + I(1 + wl.below(3))); p.push_back("flood 0 0"); p.push_back("step 2");} else p.push_back("noread 0 " + I(wl.below(2)));}   // the hostile client floods the server for a few loop iterations
      else if ((k < 84)&&(!faultFree)) p.push_back("advance " + U(fl.oneIn(3) ? (1000000ULL * (1 + fl.below(5000))) : (1 + fl.below(900000))));
      else if (k < 86) p.push_back("idle");
      else if (k < 90) {const int v = 1 + (int) wl.below((uint32_t) victims); p.push_back("read " + I(v));}
      else GenPump(p, g, wl);
      if (wl.pct(45)) {p.push_back("send " + I(witness) + " ping " + I(++ping)); p.push_back("step " + I(2 + wl.below(4)));}
      if ((++sinceQuiesce >= 12 + (int) wl.below(12))||(wl.oneIn(20))) {p.push_back(((stallRun)&&(sr.oneIn(2))) ? ("slowq " + I((int) sr.below((uint32_t) clients)) + " " + U(sr.oneIn(2) ? 8 : (16 + sr.below(100))) + " " + I(8 + (int) sr.below(40))) : std::string("quiesce")); sinceQuiesce = 0;}
   }
   p.push_back("send " + I(witness) + " ping " + I(++ping)); p.push_back("step 6");
   return p;
}

inline void Exec(const Plan & plan, RunResult & res)
{
   srv::Interp in(plan, res);
   Cfg cfg(plan);
   in.sim.orc.liveness = true; in.sim.orc.mirror = true; in.sim.orc.marks = true;   // victims must be served *correctly*
   in.sim.hostileConn = (int) cfg.i("hostile", 0); in.sim.witnessConn = (int) cfg.i("witness", -1);
   in.Run();
   const Stats & st = res.stats;
   auto get = [&](const char * k) {auto it = st.c.find(k); return (it == st.c.end()) ? (uint64_t) 0 : it->second;};
   res.nontrivial = (get("p.hostile_cmds_processed") >= 3)&&(get("witness_pongs") >= 1);
   if (cfg.i("faultfree", 0)) res.stats.inc("runs_fault_free"); else res.stats.inc("runs_with_faults");
}

}} // namespace vs::c07
