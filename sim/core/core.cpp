// sim/core/core.cpp -- see core.h
#include "core.h"
#include <stdarg.h>
#include <signal.h>
#include <unistd.h>
#include <fcntl.h>
#include <errno.h>
#include <time.h>
#include <sys/syscall.h>
#include <sys/wait.h>
#include <sys/personality.h>
#include <poll.h>
#include <sys/time.h>
#include <sanitizer/allocator_interface.h>
#include <sanitizer/common_interface_defs.h>
#include <exception>

// Sanitizer options are compiled in so that every way of starting a worker gets them.
extern "C" __attribute__((used)) __attribute__((visibility("default"))) const char * __asan_default_options()
{
   return "exitcode=77:detect_leaks=0:abort_on_error=0:allocator_may_return_null=1:handle_segv=1:handle_abort=1:"
          "hard_rss_limit_mb=6144:detect_stack_use_after_return=0:max_allocation_size_mb=2048:print_summary=1:symbolize=1:"
          "malloc_context_size=8";
}
extern "C" __attribute__((used)) __attribute__((visibility("default"))) const char * __ubsan_default_options()
{
   return "halt_on_error=1:exitcode=77:print_stacktrace=1:symbolize=1";
}

namespace vs {

bool g_verbose = false;

std::string Stats::json() const
{
   std::string r = "{"; bool first = true;
   for (auto & kv : c) {if (!first) r += ","; first = false; r += "\"" + kv.first + "\":" + std::to_string((unsigned long long) kv.second);}
   return r + "}";
}

std::string Esc(const std::string & raw)
{
   if (raw.empty()) return "%";
   static const char * hex = "0123456789ABCDEF";
   std::string r;
   for (unsigned char ch : raw)
   {
      if ((ch > 0x20)&&(ch < 0x7f)&&(ch != '%')&&(ch != '"')&&(ch != '\\')) r += (char) ch;
      else {r += '%'; r += hex[ch>>4]; r += hex[ch&15];}
   }
   return r;
}
static int HexVal(char c) {return ((c >= '0')&&(c <= '9')) ? (c-'0') : (((c >= 'A')&&(c <= 'F')) ? (c-'A'+10) : (((c >= 'a')&&(c <= 'f')) ? (c-'a'+10) : -1));}
std::string Unesc(const std::string & tok)
{
   if (tok == "%") return "";
   std::string r;
   for (size_t i=0; i<tok.size(); i++)
   {
      if ((tok[i] == '%')&&(i+2 < tok.size()+0)&&(HexVal(tok[i+1]) >= 0)&&(HexVal(tok[i+2]) >= 0)) {r += (char)((HexVal(tok[i+1])<<4)|HexVal(tok[i+2])); i += 2;}
      else r += tok[i];
   }
   return r;
}
std::vector<std::string> Split(const std::string & line)
{
   std::vector<std::string> r; size_t i = 0;
   while(i < line.size())
   {
      while((i < line.size())&&(line[i] == ' ')) i++;
      size_t j = i; while((j < line.size())&&(line[j] != ' ')) j++;
      if (j > i) r.push_back(line.substr(i, j-i));
      i = j;
   }
   return r;
}
std::string ReadFile(const std::string & path)
{
   std::string r; FILE * f = fopen(path.c_str(), "rb"); if (!f) return r;
   char buf[65536]; size_t n; while((n = fread(buf, 1, sizeof(buf), f)) > 0) r.append(buf, n);
   fclose(f); return r;
}
Plan ReadPlanFile(const std::string & path)
{
   Plan p; std::string all = ReadFile(path); size_t i = 0;
   while(i < all.size())
   {
      size_t j = all.find('\n', i); if (j == std::string::npos) j = all.size();
      std::string l = all.substr(i, j-i); while((!l.empty())&&((l.back() == '\r')||(l.back() == ' '))) l.pop_back();
      if ((!l.empty())&&(l[0] != '#')) p.push_back(l);
      i = j+1;
   }
   return p;
}
Cfg::Cfg(const Plan & p)
{
   for (auto & l : p) if (l.compare(0, 4, "cfg ") == 0)
   {
      for (auto & t : Split(l.substr(4))) {size_t e = t.find('='); if (e != std::string::npos) kv[t.substr(0,e)] = t.substr(e+1);}
   }
}

void Fail(const std::string & cls, const std::string & detail) {throw Violation(cls, detail);}

// ---------------------------------------------------------------- watchdog / current op
static char g_curOp[512] = "(none)";
void SetCurOp(const char * fmt, ...) {va_list a; va_start(a, fmt); vsnprintf(g_curOp, sizeof(g_curOp), fmt, a); va_end(a);}
const char * GetCurOp() {return g_curOp;}
double RealNowSec() {struct timespec ts; syscall(SYS_clock_gettime, CLOCK_MONOTONIC, &ts); return (double) ts.tv_sec + 1e-9*(double)ts.tv_nsec;}

static int g_mode = 0;   // 1 search, 2 exec, 3 child of fork-per-run
static uint64_t g_curIdx = 0, g_curSeed = 0;
static int g_resultFd = 1;
static void EmitViolLine(const char * cls, const char * detail, uint64_t hash, int exitCode)
{
   char buf[2048]; std::string d = Esc(detail);
   int n;
   if (g_mode == 3) {n = snprintf(buf, sizeof(buf), "WD %s %.1500s\n", cls, d.c_str()); exitCode = 0;}
   else if (g_mode == 2) n = snprintf(buf, sizeof(buf), "RESULT VIOL %016llx 0 %s %.1500s\n", (unsigned long long) hash, cls, d.c_str());
               else n = snprintf(buf, sizeof(buf), "VIOL %llu %llu %016llx %s %.1500s\n", (unsigned long long) g_curIdx, (unsigned long long) g_curSeed, (unsigned long long) hash, cls, d.c_str());
   if (n > (int)sizeof(buf)) n = (int) sizeof(buf);
   (void) !write(g_resultFd, buf, (size_t) n);
   _exit(exitCode);
}
void ExitWithViolation(const std::string & cls, const std::string & detail, uint64_t hash)
{
   if (g_mode == 3)
   {
      std::string line = "VIOL " + U(hash) + " 0 0 " + cls + " " + Esc(detail.substr(0, 3000)) + "\n";
      (void) !write(g_resultFd, line.data(), line.size());
      _exit(0);
   }
   EmitViolLine(cls.c_str(), detail.c_str(), hash, (g_mode == 2) ? 1 : 3);
   _exit(3);
}
static void OnAlarm(int) {EmitViolLine("hang", g_curOp, 0, (g_mode == 2) ? 1 : 3);}
static int g_watchdogSecs = 30;
// The per-operation watchdog counts the process's CPU time (ITIMER_PROF), not wall-clock time: a busy loop in the code under test trips it after g_watchdogSecs
// CPU-seconds however loaded the machine is, and a merely starved (or stopped) process never trips it.  A wall-clock alarm ten times as long is the backstop for
// an operation that blocks without burning CPU (the supervisor's own time-out is the backstop behind that).
// Head-room measurement: the CPU time of every armed interval (what the watchdog would have had to exceed) is taken with the same clock the timer counts, and the
// largest one goes into the run's statistics as max.wd_op_cpu_ms -- evidence of how far the costliest legitimate operation stays below the watchdog.  It is never part
// of a trace hash.  VSIM_SLOWLOG=<ms> additionally names every interval at or above that many milliseconds on stderr (a development aid).
static double CpuNowSec() {struct timespec ts; syscall(SYS_clock_gettime, CLOCK_PROCESS_CPUTIME_ID, &ts); return (double) ts.tv_sec + 1e-9*(double)ts.tv_nsec;}
static double g_armedAtCpu = -1.0; static char g_armedOp[512]; static uint64_t g_maxOpCpuMs = 0; static long g_slowLogMs = -1;
static void NoteArmedIntervalEnd()
{
   if (g_armedAtCpu < 0.0) return;
   const double d = CpuNowSec()-g_armedAtCpu; g_armedAtCpu = -1.0;
   const uint64_t ms = (d > 0.0) ? (uint64_t) (d*1000.0) : 0;
   if (ms > g_maxOpCpuMs) g_maxOpCpuMs = ms;
   if ((g_slowLogMs >= 0)&&((long) ms >= g_slowLogMs)) {char b[768]; const int n = snprintf(b, sizeof(b), "SLOW %llu ms idx=%llu seed=%llu op=%.500s\n", (unsigned long long) ms, (unsigned long long) g_curIdx, (unsigned long long) g_curSeed, g_armedOp); (void) !write(2, b, (size_t) ((n < (int) sizeof(b)) ? n : (int) sizeof(b)));}
}
static uint64_t TakeMaxOpCpuMs() {const uint64_t r = g_maxOpCpuMs; g_maxOpCpuMs = 0; return r;}
void WatchdogArm(int seconds)
{
   NoteArmedIntervalEnd();
   const int s = (seconds > 0) ? seconds : g_watchdogSecs;
   struct itimerval it; memset(&it, 0, sizeof(it)); it.it_value.tv_sec = s; (void) setitimer(ITIMER_PROF, &it, NULL);
   alarm((unsigned) (10*s));
   memcpy(g_armedOp, g_curOp, sizeof(g_armedOp)); g_armedAtCpu = CpuNowSec();
}
void WatchdogDisarm() {NoteArmedIntervalEnd(); struct itimerval it; memset(&it, 0, sizeof(it)); (void) setitimer(ITIMER_PROF, &it, NULL); alarm(0);}

static void OnTerminate()
{
   EmitViolLine("terminate", (std::string("std::terminate during ")+g_curOp).c_str(), 0, (g_mode == 2) ? 1 : 3);
}

// ---------------------------------------------------------------- worker main
static const char * Arg(int argc, char ** argv, const char * name, const char * dflt)
{
   for (int i=0; i+1<argc; i++) if (strcmp(argv[i], name) == 0) return argv[i+1];
   return dflt;
}
static bool Flag(int argc, char ** argv, const char * name) {for (int i=0; i<argc; i++) if (strcmp(argv[i], name) == 0) return true; return false;}

static void RunOne(const WorkerDef & def, const PropDef & pd, const Plan & plan, RunResult & r)
{
   if (def.betweenRuns) def.betweenRuns();
   try {pd.exec(plan, r);}
   catch(const Violation & v) {r.ok = false; r.cls = v.cls; r.detail = v.detail;}
   WatchdogDisarm();
   r.stats.max("max.wd_op_cpu_ms", TakeMaxOpCpuMs());
}

// fork-per-run through a zygote.  The worker (aggregator) forks the zygote right after the warm-up; the zygote then does nothing but
// read a fixed-size request, fork one child per run and report the child's wait status -- it never allocates, so every child, in a search
// worker and in a fresh replay process alike, starts from the byte-identical (ASLR-free) address space and a run is a pure function of
// (binary, plan), pointer hashing included.  The child generates or reads its plan itself and writes its result line to a shared pipe.
struct ZReq {uint64_t seed; int mode; /* 0 = generate from seed, 1 = read plan file */ char planPath[1024];};
struct ZStat {int status;};
static int g_zCtrl = -1, g_zRes = -1, g_zStat = -1; static pid_t g_zPid = -1;
static void StartZygote(const PropDef & pd)
{
   int ctrl[2], res[2], stat[2];
   if ((pipe(ctrl) != 0)||(pipe(res) != 0)||(pipe(stat) != 0)) {perror("pipe"); exit(2);}
   fflush(stdout); fflush(stderr);
   const pid_t z = fork();
   if (z < 0) {perror("fork"); exit(2);}
   if (z == 0)
   {
      close(ctrl[1]); close(res[0]); close(stat[0]);
      // fixed, high descriptor numbers for the harness's own pipes, so that the descriptors the system under test allocates (socket pairs
      // of muscle Threads) are numbered identically in every process, whatever files the aggregator happened to have open
      if ((dup2(ctrl[0], 240) < 0)||(dup2(res[1], 241) < 0)||(dup2(stat[1], 242) < 0)) _exit(8);
      close(ctrl[0]); close(res[1]); close(stat[1]); ctrl[0] = 240; res[1] = 241; stat[1] = 242;
      for (int fd=3; fd<240; fd++) close(fd);
      while(true)
      {
         ZReq req; size_t got = 0;
         while(got < sizeof(req)) {const ssize_t n = read(ctrl[0], ((char *) &req)+got, sizeof(req)-got); if (n <= 0) {if ((n < 0)&&(errno == EINTR)) continue; _exit(0);} got += (size_t) n;}
         if (getenv("VSIM_DEBUG_ADDR")) {char b[96]; const int n = snprintf(b, sizeof(b), "ZYGOTE allocated=%zu\n", __sanitizer_get_current_allocated_bytes()); (void) !write(2, b, (size_t) n);}
         const pid_t c = fork();
         if (c < 0) _exit(9);
         if (c == 0)
         {
            close(ctrl[0]); close(stat[1]);
            g_resultFd = res[1]; g_mode = 3; g_curSeed = req.seed;
            RunResult cr;
            try
            {
               SetCurOp("generate / read plan");
               if (getenv("VSIM_DEBUG_ADDR")) {char b[96]; const int n = snprintf(b, sizeof(b), "CHILD-before-gen allocated=%zu\n", __sanitizer_get_current_allocated_bytes()); (void) !write(2, b, (size_t) n);}
               const Plan plan = (req.mode == 0) ? pd.gen(req.seed) : ReadPlanFile(req.planPath);
               if (getenv("VSIM_DEBUG_ADDR")) {char b[96]; const int n = snprintf(b, sizeof(b), "CHILD-after-gen allocated=%zu lines=%zu\n", __sanitizer_get_current_allocated_bytes(), plan.size()); (void) !write(2, b, (size_t) n);}
               pd.exec(plan, cr);
            }
            catch(const Violation & v) {cr.ok = false; cr.cls = v.cls; cr.detail = v.detail;}
            WatchdogDisarm();
            cr.stats.max("max.wd_op_cpu_ms", TakeMaxOpCpuMs());
            std::string line = std::string(cr.ok ? "OK " : "VIOL ") + U(cr.hash) + " " + (cr.nontrivial ? "1 " : "0 ") + U(cr.simMicros) + " " + (cr.ok ? "-" : cr.cls) + " " + Esc(cr.detail.substr(0, 3000));
            for (auto & kv : cr.stats.c) line += " " + kv.first + "=" + U(kv.second);
            line += "\n";
            (void) !write(res[1], line.data(), line.size());
            _exit(0);
         }
         ZStat zs; zs.status = 0; while((waitpid(c, &zs.status, 0) < 0)&&(errno == EINTR)) {}
         (void) !write(stat[1], &zs, sizeof(zs));
      }
   }
   close(ctrl[0]); close(res[1]); close(stat[1]);
   g_zCtrl = ctrl[1]; g_zRes = res[0]; g_zStat = stat[0]; g_zPid = z;
   (void) fcntl(g_zRes, F_SETFL, fcntl(g_zRes, F_GETFL) | O_NONBLOCK);
}
static bool RunOneForked(uint64_t seed, const char * optPlanPath, RunResult & r, int & crashStatus)
{
   ZReq req; memset(&req, 0, sizeof(req)); req.seed = seed; req.mode = optPlanPath ? 1 : 0; if (optPlanPath) snprintf(req.planPath, sizeof(req.planPath), "%s", optPlanPath);
   if (write(g_zCtrl, &req, sizeof(req)) != (ssize_t) sizeof(req)) {perror("zygote write"); exit(2);}
   std::string got; bool haveStat = false; ZStat zs; zs.status = 0;
   while(!haveStat)
   {
      struct pollfd pf[2]; pf[0].fd = g_zRes; pf[0].events = POLLIN; pf[1].fd = g_zStat; pf[1].events = POLLIN;
      if ((poll(pf, 2, 60000) < 0)&&(errno != EINTR)) break;
      if (pf[0].revents & POLLIN) {char buf[4096]; ssize_t n; while((n = read(g_zRes, buf, sizeof(buf))) > 0) got.append(buf, (size_t) n);}
      if (pf[1].revents & (POLLIN|POLLHUP)) {size_t g = 0; while(g < sizeof(zs)) {const ssize_t n = read(g_zStat, ((char *) &zs)+g, sizeof(zs)-g); if (n <= 0) {if ((n < 0)&&(errno == EINTR)) continue; fprintf(stderr, "zygote died\n"); exit(2);} g += (size_t) n;} haveStat = true;}
   }
   {char buf[4096]; ssize_t n; while((n = read(g_zRes, buf, sizeof(buf))) > 0) got.append(buf, (size_t) n);}   // whatever the child wrote before it exited
   crashStatus = zs.status;
   if (got.empty()) return false;   // crashed without a report
   std::vector<std::string> t = Split(got.substr(0, got.find('\n')));
   if ((t.size() >= 2)&&(t[0] == "WD")) {r.ok = false; r.cls = t[1]; r.detail = (t.size() > 2) ? Unesc(t[2]) : ""; return true;}   // written by the child's watchdog / terminate handler
   if (t.size() < 6) return false;
   r.ok = (t[0] == "OK"); r.hash = ToU(t[1]); r.nontrivial = (t[2] == "1"); r.simMicros = ToU(t[3]); r.cls = (t[4] == "-") ? "" : t[4]; r.detail = Unesc(t[5]);
   for (size_t i=6; i<t.size(); i++) {size_t e = t[i].find('='); if (e != std::string::npos) r.stats.c[t[i].substr(0, e)] = ToU(t[i].substr(e+1));}
   return true;
}

// The worker protocol has its own stream: the code under test prints to stdout too (MicroMessage.c error texts, UMPrint indentation), which
// must neither corrupt a protocol line nor be mistaken for one.  fd 1 is pointed at /dev/null once the protocol stream has been split off.
static FILE * g_proto = NULL;
int WorkerMain(int argc, char ** argv, const WorkerDef & def)
{
   if (argc < 3)
   {
      fprintf(stderr, "usage: %s <prop> gen <seed> | exec <planfile> [--verbose] | search --base B --first F --stride S --count N [--budget SEC] [--status FILE] [--hashes FILE] [--hsample M]\n  engine %s, props:", argv[0], def.engine);
      for (int i=0; i<def.numProps; i++) fprintf(stderr, " %s", def.props[i].id);
      fprintf(stderr, "\n"); return 2;
   }
   const PropDef * pd = NULL;
   for (int i=0; i<def.numProps; i++) if (strcmp(def.props[i].id, argv[1]) == 0) pd = &def.props[i];
   if (pd == NULL) {fprintf(stderr, "unknown property %s for engine %s\n", argv[1], def.engine); return 2;}
   const std::string mode = argv[2];
   g_verbose = Flag(argc, argv, "--verbose");
   g_watchdogSecs = atoi(Arg(argc, argv, "--watchdog", "30"));
   if (getenv("VSIM_SLOWLOG")) g_slowLogMs = atol(getenv("VSIM_SLOWLOG"));

   // (a fresh-process replay -- "exec" -- always runs without address-space randomisation, in every engine: where a wild read of the code under test lands
   //  (unmapped memory, a live heap block, a freed one) then no longer varies from one replay to the next, so a crash keeps its class)
   if (((pd->forkPerRun)||(mode == "exec"))&&(mode != "gen")&&(getenv("VSIM_NOASLR") == NULL))
   {
      // every child must start from the byte-identical address space, in search and in replay alike
      setenv("VSIM_NOASLR", "1", 1);
      if (personality(ADDR_NO_RANDOMIZE) != -1) {execv("/proc/self/exe", argv); perror("execv");}
   }
   if (g_proto == NULL) {g_proto = fdopen(dup(1), "w"); g_resultFd = fileno(g_proto); /* watchdog / terminate / any-thread violation lines are written to this descriptor directly */ if ((mode != "exec")||(Flag(argc, argv, "--verbose") == false)) {const int nul = open("/dev/null", O_WRONLY); if (nul >= 0) {fflush(stdout); (void) dup2(nul, 1); close(nul);}}}

   signal(SIGALRM, OnAlarm); signal(SIGPROF, OnAlarm);
   std::set_terminate(OnTerminate);
   setvbuf(stdout, NULL, _IOLBF, 0);

   if (mode == "gen")
   {
      const uint64_t seed = ToU(argv[3]);
      Plan p = pd->gen(seed);
      for (auto & l : p) fprintf(g_proto, "%s\n", l.c_str());
      return 0;
   }
   if (def.warmup) def.warmup();
   if (pd->forkPerRun) StartZygote(*pd);   // immediately after the warm-up, before anything whose allocations depend on the command line
   if (mode == "exec")
   {
      g_mode = 2;
      RunResult r; int crash = 0;
      if (pd->forkPerRun)
      {
         if (RunOneForked(0, argv[3], r, crash) == false)
         {
            fprintf(g_proto, "RESULT CRASH %d %d\n", WIFEXITED(crash) ? WEXITSTATUS(crash) : -1, WIFSIGNALED(crash) ? WTERMSIG(crash) : 0);
            return WIFEXITED(crash) ? WEXITSTATUS(crash) : 70;
         }
      }
      else {Plan p = ReadPlanFile(argv[3]); RunOne(def, *pd, p, r);}
      if (r.ok) fprintf(g_proto, "RESULT OK %016llx %d - -\n", (unsigned long long) r.hash, r.nontrivial ? 1 : 0);
           else fprintf(g_proto, "RESULT VIOL %016llx %d %s %s\n", (unsigned long long) r.hash, r.nontrivial ? 1 : 0, r.cls.c_str(), Esc(r.detail).c_str());
      fprintf(g_proto, "AGG {\"runs\":1,\"nontrivial\":%d,\"sim_us\":%llu,\"stats\":%s}\n", r.nontrivial ? 1 : 0, (unsigned long long) r.simMicros, r.stats.json().c_str());
      fflush(g_proto);
      _exit(r.ok ? 0 : 1);
   }
   if (mode == "search")
   {
      g_mode = 1;
      const uint64_t base = ToU(Arg(argc, argv, "--base", "1")), first = ToU(Arg(argc, argv, "--first", "0")), stride = ToU(Arg(argc, argv, "--stride", "1")), count = ToU(Arg(argc, argv, "--count", "1000"));
      const double budget = atof(Arg(argc, argv, "--budget", "1e9"));
      const uint64_t hsample = ToU(Arg(argc, argv, "--hsample", "0")), hmax = ToU(Arg(argc, argv, "--hmax", "400"));
      const char * statusPath = Arg(argc, argv, "--status", NULL), * hashesPath = Arg(argc, argv, "--hashes", NULL), * idxFile = Arg(argc, argv, "--idx-file", NULL);
      const int statusFd = statusPath ? open(statusPath, O_WRONLY|O_CREAT|O_TRUNC, 0644) : -1;
      FILE * hashesF = hashesPath ? fopen(hashesPath, "ab") : NULL;
      std::vector<uint64_t> idxList;
      if (idxFile) {for (auto & l : ReadPlanFile(idxFile)) idxList.push_back(ToU(l));}
      const double t0 = RealNowSec();
      static Stats agg; static uint64_t runs = 0, nontrivial = 0, simUs = 0; uint64_t hprinted = 0; double lastAggAt = t0;
      static FILE * s_hashesF = NULL; s_hashesF = hashesF;
      // a sanitizer abort in an in-process run prints nothing of ours: hand over the counters of the runs since the last instalment from the death callback
      if (pd->forkPerRun == false) __sanitizer_set_death_callback([]() {
         static bool once = false; if (once) return; once = true;
         char b[128]; const int n = snprintf(b, sizeof(b), "\nAGG {\"runs\":%llu,\"nontrivial\":%llu,\"sim_us\":%llu,\"stats\":", (unsigned long long) runs, (unsigned long long) nontrivial, (unsigned long long) simUs);
         fflush(g_proto); (void) !write(fileno(g_proto), b, (size_t) n); const std::string j = agg.json(); (void) !write(fileno(g_proto), j.data(), j.size()); (void) !write(fileno(g_proto), "}\n", 2);
         if (s_hashesF) fflush(s_hashesF);
      });
      const uint64_t total = idxFile ? idxList.size() : count;
      for (uint64_t k=0; k<total; k++)
      {
         if ((RealNowSec()-t0) > budget) break;
         const uint64_t idx = idxFile ? idxList[k] : (first + k*stride);
         const uint64_t seed = Mix(base, idx);
         g_curIdx = idx; g_curSeed = seed;
         if (statusFd >= 0) {char sb[64]; int n = snprintf(sb, sizeof(sb), "%020llu %020llu\n", (unsigned long long) idx, (unsigned long long) seed); (void) !pwrite(statusFd, sb, (size_t) n, 0);}
         SetCurOp("generate");
         RunResult r; int crash = 0;
         if (pd->forkPerRun)
         {
            if (RunOneForked(seed, NULL, r, crash) == false)
            {
               fprintf(g_proto, "CRASH %llu %llu %d %d\n", (unsigned long long) idx, (unsigned long long) seed, WIFEXITED(crash) ? WEXITSTATUS(crash) : -1, WIFSIGNALED(crash) ? WTERMSIG(crash) : 0);
               fprintf(g_proto, "AGG {\"runs\":%llu,\"nontrivial\":%llu,\"sim_us\":%llu,\"stats\":%s}\n", (unsigned long long) runs, (unsigned long long) nontrivial, (unsigned long long) simUs, agg.json().c_str());
               fflush(g_proto); if (hashesF) fclose(hashesF);
               _exit(5);
            }
         }
         else {Plan p = pd->gen(seed); RunOne(def, *pd, p, r);}
         runs++; if (r.nontrivial) nontrivial++; simUs += r.simMicros; agg.merge(r.stats);
         if ((r.ok)&&((runs >= 256)||((RealNowSec()-lastAggAt) > 2.0)))
         {
            // counters are handed over in instalments, so that a later sanitizer abort (which prints nothing) loses at most the runs since the last one
            fprintf(g_proto, "AGG {\"runs\":%llu,\"nontrivial\":%llu,\"sim_us\":%llu,\"stats\":%s}\n", (unsigned long long) runs, (unsigned long long) nontrivial, (unsigned long long) simUs, agg.json().c_str());
            fflush(g_proto); if (hashesF) fflush(hashesF);
            runs = nontrivial = simUs = 0; agg = Stats(); lastAggAt = RealNowSec();
         }
         if ((hashesF)&&(r.nontrivial)&&(r.ok)) fwrite(&r.hash, sizeof(r.hash), 1, hashesF);
         if ((idxFile)||((hsample > 0)&&((idx % hsample) == 0)&&(hprinted < hmax))) {fprintf(g_proto, "H %llu %016llx\n", (unsigned long long) idx, (unsigned long long) r.hash); hprinted++;}
         if (r.ok == false)
         {
            fprintf(g_proto, "AGG {\"runs\":%llu,\"nontrivial\":%llu,\"sim_us\":%llu,\"stats\":%s}\n", (unsigned long long) runs, (unsigned long long) nontrivial, (unsigned long long) simUs, agg.json().c_str());
            fprintf(g_proto, "VIOL %llu %llu %016llx %s %s\n", (unsigned long long) idx, (unsigned long long) seed, (unsigned long long) r.hash, r.cls.c_str(), Esc(r.detail).c_str());
            fflush(g_proto); if (hashesF) fclose(hashesF);
            _exit(3);
         }
      }
      fprintf(g_proto, "AGG {\"runs\":%llu,\"nontrivial\":%llu,\"sim_us\":%llu,\"stats\":%s}\n", (unsigned long long) runs, (unsigned long long) nontrivial, (unsigned long long) simUs, agg.json().c_str());
      fprintf(g_proto, "END\n");
      fflush(g_proto); if (hashesF) fclose(hashesF);
      _exit(0);   // skip static destructors: nothing of the system under test outlives a run
   }
   fprintf(stderr, "unknown mode %s\n", mode.c_str());
   return 2;
}

} // namespace vs
