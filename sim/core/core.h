// sim/core/core.h -- shared machinery of all simulation workers:
//   seeded PRNG streams, trace hashing, text plans, statistics, the worker protocol,
//   watchdog and crash classification.  Nothing in here draws randomness or reads a clock
//   on behalf of the system under test.
#pragma once
#include <stdint.h>
#include <stdio.h>
#include <stdlib.h>
#include <string.h>
#include <string>
#include <vector>
#include <map>
#include <set>
#include <functional>

namespace vs {

// ---------------------------------------------------------------- PRNG
inline uint64_t SplitMix(uint64_t & s) {s += 0x9e3779b97f4a7c15ULL; uint64_t z = s; z = (z^(z>>30))*0xbf58476d1ce4e5b9ULL; z = (z^(z>>27))*0x94d049bb133111ebULL; return z^(z>>31);}
inline uint64_t Mix(uint64_t a, uint64_t b) {uint64_t s = a ^ (b*0xd6e8feb86659fd93ULL + 0x632be59bd9b4e019ULL); (void) SplitMix(s); return SplitMix(s);}
inline uint64_t HashStr(const char * p) {uint64_t h = 1469598103934665603ULL; while(*p) {h ^= (uint8_t)*p++; h *= 1099511628211ULL;} return h;}

struct Rng
{
   uint64_t s;
   explicit Rng(uint64_t seed = 0) : s(seed) {}
   Rng(uint64_t seed, const char * stream) : s(Mix(seed, HashStr(stream))) {}
   uint64_t u64() {return SplitMix(s);}
   uint32_t u32() {return (uint32_t)(u64()>>32);}
   uint32_t below(uint32_t n) {return (n <= 1) ? 0 : (uint32_t)(u64() % n);}
   int range(int lo, int hi) {return (hi <= lo) ? lo : lo + (int) below((uint32_t)(hi-lo+1));}   // inclusive
   bool pct(int p) {return (int) below(100) < p;}
   bool oneIn(int n) {return below((uint32_t)n) == 0;}
   template<class T> const T & pick(const std::vector<T> & v) {return v[below((uint32_t)v.size())];}
   template<class T, size_t N> const T & pick(const T (&a)[N]) {return a[below((uint32_t)N)];}
};

// ---------------------------------------------------------------- trace hash
struct TraceHash
{
   uint64_t h;
   uint64_t n;   // number of events folded in
   TraceHash() : h(1469598103934665603ULL), n(0) {}
   void u(uint64_t v) {for (int i=0; i<8; i++) {h ^= (v & 0xff); h *= 1099511628211ULL; v >>= 8;} n++;}
   void s(const char * p) {while(*p) {h ^= (uint8_t)*p++; h *= 1099511628211ULL;} h ^= 0xff; h *= 1099511628211ULL; n++;}
   void s(const std::string & x) {b(x.data(), x.size());}
   void b(const void * p, size_t len) {const uint8_t * q = (const uint8_t *)p; for (size_t i=0; i<len; i++) {h ^= q[i]; h *= 1099511628211ULL;} u(len);}
};

// ---------------------------------------------------------------- statistics
struct Stats
{
   std::map<std::string, uint64_t> c;
   void inc(const std::string & k, uint64_t n = 1) {c[k] += n;}
   void max(const std::string & k, uint64_t v) {uint64_t & r = c[k]; if (v > r) r = v;}
   void merge(const Stats & o) {for (auto & kv : o.c) { if (kv.first.compare(0,4,"max.")==0) max(kv.first, kv.second); else c[kv.first] += kv.second; }}
   std::string json() const;
};

// ---------------------------------------------------------------- plans
// A plan is a list of text lines.  Lines starting with "cfg " are configuration (never removed
// by minimisation); every other line is one op.  Tokens are separated by single blanks;
// arbitrary strings/bytes are carried as %XX-escaped tokens.
typedef std::vector<std::string> Plan;
std::string Esc(const std::string & raw);      // -> token without blanks (never empty: "" becomes "%")
std::string Unesc(const std::string & tok);
std::vector<std::string> Split(const std::string & line);
std::string ReadFile(const std::string & path);
Plan ReadPlanFile(const std::string & path);    // accepts the plain-lines format and the replay-JSON format ("plan":[...])
struct Cfg  // key=value view of the "cfg" lines
{
   std::map<std::string, std::string> kv;
   explicit Cfg(const Plan & p);
   long long i(const char * k, long long dflt = 0) const {auto it = kv.find(k); return (it == kv.end()) ? dflt : strtoll(it->second.c_str(), NULL, 0);}
   std::string s(const char * k, const char * dflt = "") const {auto it = kv.find(k); return (it == kv.end()) ? dflt : it->second;}
   bool has(const char * k) const {return kv.find(k) != kv.end();}
};
inline std::string U(uint64_t v) {return std::to_string((unsigned long long) v);}
inline std::string I(int64_t v) {return std::to_string((long long) v);}
inline uint64_t ToU(const std::string & s) {return strtoull(s.c_str(), NULL, 0);}
inline int64_t  ToI(const std::string & s) {return strtoll(s.c_str(), NULL, 0);}

// ---------------------------------------------------------------- violations
struct Violation
{
   std::string cls;     // short stable token, e.g. "prefix_mismatch"
   std::string detail;  // human-readable; may contain anything
   Violation(const std::string & c, const std::string & d) : cls(c), detail(d) {}
};
[[noreturn]] void Fail(const std::string & cls, const std::string & detail);   // throws Violation
// Reports a violation from ANY thread of a fork-per-run child (where unwinding is impossible: other threads are parked inside the
// system under test) through the worker protocol and _exit()s.  In a non-forked worker it reports like a watchdog hit.
[[noreturn]] void ExitWithViolation(const std::string & cls, const std::string & detail, uint64_t hash = 0);

// ---------------------------------------------------------------- run result / property definition
struct RunResult
{
   bool ok = true;
   std::string cls, detail;
   uint64_t hash = 0;
   bool nontrivial = false;
   uint64_t simMicros = 0;   // simulated time covered by this run
   Stats stats;
};
struct PropDef
{
   const char * id;                                  // "C03"
   Plan (*gen)(uint64_t seed);                       // seed -> plan (pure)
   void (*exec)(const Plan & plan, RunResult & r);   // executes the plan; may throw Violation
   bool forkPerRun;                                  // run every seed in a fork()ed child (thrsim)
};
struct WorkerDef
{
   const char * engine;
   const PropDef * props; int numProps;
   void (*warmup)();                                 // once per process (before any fork)
   void (*betweenRuns)();                            // reset global state so a run is a function of its plan only
};
int WorkerMain(int argc, char ** argv, const WorkerDef & def);

// the op currently executing (for HANG/crash attribution); async-signal-safe to read
void SetCurOp(const char * fmt, ...) __attribute__((format(printf,1,2)));
const char * GetCurOp();
void WatchdogArm(int seconds);     // SIGALRM based; reports VIOL hang and _exit()s
void WatchdogDisarm();
double RealNowSec();               // real wall clock via raw syscall (never the wrapped one)
extern bool g_verbose;             // --verbose: engines may print a human-readable event trace to stderr

} // namespace vs
