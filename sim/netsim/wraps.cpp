// sim/netsim/wraps.cpp -- see wraps.h
#include "wraps.h"
#include <time.h>
#include <sys/time.h>
#include <stddef.h>
#include "support/VerifSimHooks.h"
namespace vs {
uint64_t g_simNowUs = 1000000, g_simClockReads = 0, g_simStartUs = 1000000;
SimSelectHandler g_simSelectHandler = NULL;
void SimClockReset(uint64_t startUs) {g_simNowUs = g_simStartUs = startUs; g_simClockReads = 0;}
void SimClockAdvance(uint64_t d) {g_simNowUs += d;}
static uint64_t g_simRandState = 1;
static uint64_t NextRand() {g_simRandState += 0x9e3779b97f4a7c15ULL; uint64_t z = g_simRandState; z = (z^(z>>30))*0xbf58476d1ce4e5b9ULL; z = (z^(z>>27))*0x94d049bb133111ebULL; return z^(z>>31);}
static bool Rand32(uint32_t * r) {*r = (uint32_t)(NextRand()>>32); return true;}
static bool Rand64(uint64_t * r) {*r = NextRand(); return true;}
static MuscleVerifSimHooks g_netsimHooks;   // all other hooks stay NULL: netsim is single-threaded
void SimRandomReset(uint64_t seed)
{
   g_simRandState = seed;
   g_netsimHooks.random32 = Rand32; g_netsimHooks.random64 = Rand64;
   g_muscleVerifSim = &g_netsimHooks;
}
}
using namespace vs;
static const uint64_t kWallOffsetUs = 1700000000ULL*1000000ULL;   // simulated wall clock = fixed epoch + simulated monotonic clock
extern "C" {
int __wrap_clock_gettime(clockid_t id, struct timespec * ts)
{
   g_simNowUs += 1; g_simClockReads++;
   uint64_t t = g_simNowUs + (((id == CLOCK_REALTIME)||(id == CLOCK_REALTIME_COARSE)) ? kWallOffsetUs : 0);
   ts->tv_sec = (time_t)(t/1000000); ts->tv_nsec = (long)((t%1000000)*1000); return 0;
}
int __wrap_gettimeofday(struct timeval * tv, void *)
{
   g_simNowUs += 1; g_simClockReads++;
   uint64_t t = g_simNowUs + kWallOffsetUs; if (tv) {tv->tv_sec = (time_t)(t/1000000); tv->tv_usec = (suseconds_t)(t%1000000);} return 0;
}
time_t __wrap_time(time_t * t) {time_t r = (time_t)((g_simNowUs + kWallOffsetUs)/1000000); if (t) *t = r; return r;}
int __wrap_clock_nanosleep(clockid_t, int flags, const struct timespec * req, struct timespec *)
{
   uint64_t us = (uint64_t) req->tv_sec*1000000ULL + (uint64_t)(req->tv_nsec/1000);
   if (flags & TIMER_ABSTIME) {if (us > g_simNowUs) g_simNowUs = us;} else g_simNowUs += us;
   return 0;
}
int __wrap_nanosleep(const struct timespec * req, struct timespec *) {g_simNowUs += (uint64_t) req->tv_sec*1000000ULL + (uint64_t)(req->tv_nsec/1000); return 0;}
int __real_select(int, fd_set *, fd_set *, fd_set *, struct timeval *);
int __wrap_select(int n, fd_set * r, fd_set * w, fd_set * e, struct timeval * tv)
{
   if (g_simSelectHandler) return g_simSelectHandler(n, r, w, e, tv);
   struct timeval z = {0, 0};
   if (tv) g_simNowUs += (uint64_t) tv->tv_sec*1000000ULL + (uint64_t) tv->tv_usec;   // a sleep
   return __real_select(n, r, w, e, &z);
}
}
