// sim/netsim/match.h -- independent reference matcher / filter evaluator for the CONSERVATIVE pattern and filter subsets
// (deliberately shares no code with muscle's StringMatcher / PathMatcher / QueryFilter).
#pragma once
#include <string>
#include <vector>
#include "message/Message.h"
#include "regex/QueryFilter.h"
#include "../core/core.h"

namespace vs { namespace match {

// ---- clause-level glob: literals, '*', '?', '[x-y]' (single range or char list), whole-clause '(a|b|c)' alternation, whole-clause 'a,b' list
inline bool Glob(const char * p, const char * s)
{
   if (!*p) return !*s;
   if (*p == '*') {for (const char * t = s; ; t++) {if (Glob(p+1, t)) return true; if (!*t) return false;}}
   if (*p == '?') return (*s)&&(Glob(p+1, s+1));
   if (*p == '[')
   {
      const char * e = strchr(p, ']'); if ((e == NULL)||(!*s)) return false;
      bool hit = false;
      for (const char * q = p+1; q < e; q++)
      {
         if ((q+2 < e)&&(q[1] == '-')) {if ((*s >= q[0])&&(*s <= q[2])) hit = true; q += 2;}
         else if (*s == *q) hit = true;
      }
      return hit && Glob(e+1, s+1);
   }
   return (*p == *s)&&(Glob(p+1, s+1));
}
inline std::vector<std::string> SplitOn(const std::string & p, char sep)
{
   std::vector<std::string> v; size_t i = 0;
   while(true) {size_t j = p.find(sep, i); v.push_back(p.substr(i, (j == std::string::npos) ? j : (j-i))); if (j == std::string::npos) break; i = j+1;}
   return v;
}
// whole-clause numeric range "<lo-hi>", "<n>", "<lo->", "<-hi>", comma-separated: the name must start with a digit and its leading decimal number lie in one of the ranges
inline bool RangeClauseMatch(const std::string & pat, const std::string & s)
{
   if ((s.empty())||(s[0] < '0')||(s[0] > '9')) return false;
   unsigned long long id = 0; for (char c : s) {if ((c < '0')||(c > '9')) break; id = id*10 + (unsigned long long)(c-'0'); if (id > 0xffffffffULL) break;}
   id &= 0xffffffffULL;
   for (auto & cl : SplitOn(pat.substr(1, pat.size()-2), ','))
   {
      if (cl.empty()) continue;
      unsigned long long lo = 0, hi = 0xffffffffULL; const size_t d = cl.find('-');
      auto num = [](const std::string & t, unsigned long long dflt) {unsigned long long v = 0; bool any = false; for (char c : t) if ((c >= '0')&&(c <= '9')) {v = v*10 + (unsigned long long)(c-'0'); any = true;} return any ? v : dflt;};
      if (d == std::string::npos) lo = hi = num(cl, 0); else {lo = num(cl.substr(0, d), 0); hi = num(cl.substr(d+1), 0xffffffffULL);}
      if ((id >= lo)&&(id <= hi)) return true;
   }
   return false;
}
inline bool ClauseMatch(const std::string & pat, const std::string & s)
{
   if ((pat.size() >= 3)&&(pat[0] == '<')&&(pat[pat.size()-1] == '>')&&(pat.find('>') == pat.size()-1)) return RangeClauseMatch(pat, s);
   if ((pat.size() >= 2)&&(pat[0] == '(')&&(pat[pat.size()-1] == ')'))
   {
      for (auto & alt : SplitOn(pat.substr(1, pat.size()-2), '|')) if (Glob(alt.c_str(), s.c_str())) return true;
      return false;
   }
   if (pat.find(',') != std::string::npos)
   {
      for (auto & alt : SplitOn(pat, ',')) if (Glob(alt.c_str(), s.c_str())) return true;
      return false;
   }
   return Glob(pat.c_str(), s.c_str());
}
// Normalised form of a subscription / key pattern: absolute patterns lose their leading '/', relative ones get the implicit "*/*/" prefix
inline std::string Normalise(const std::string & pat) {return ((!pat.empty())&&(pat[0] == '/')) ? pat.substr(1) : ("*/*/" + pat);}
// path is an absolute node path like "/h1/3/a/b"
inline size_t CountSeps(const std::string & s, size_t from) {size_t n = 0; for (size_t i=from; i<s.size(); i++) if (s[i] == '/') n++; return n;}
inline bool PathMatch(const std::string & pat, const std::string & path)
{
   // (same verdict as the clause-by-clause comparison below, reached without allocating: a different number of clauses never matches.  The oracles ask this
   //  for every node x every subscription after every command, which on a large tree was seconds of allocator time per server step)
   if (path.empty()) return false;
   {const bool abs = ((!pat.empty())&&(pat[0] == '/')); if (CountSeps(pat, abs ? 1 : 0) + (abs ? 0 : 2) != CountSeps(path, 1)) return false;}
   const std::vector<std::string> pc = SplitOn(Normalise(pat), '/'), sc = SplitOn(path.substr(1), '/');
   if (pc.size() != sc.size()) return false;
   for (size_t i=0; i<pc.size(); i++) if (!ClauseMatch(pc[i], sc[i])) return false;
   return true;
}
// same, for a pattern that is relative to a session's own subtree ("/host/id/" + pat), as used by REMOVEDATA / GETDATA-relative etc.
inline bool RelPathMatch(const std::string & sessionRoot, const std::string & pat, const std::string & path)
{
   if (path.compare(0, sessionRoot.size()+1, sessionRoot + "/") != 0) return false;
   if (CountSeps(pat, 0) != CountSeps(path, sessionRoot.size()+1)) return false;   // (a different number of clauses never matches; see PathMatch)
   const std::vector<std::string> pc = SplitOn(pat, '/'), sc = SplitOn(path.substr(sessionRoot.size()+1), '/');
   if (pc.size() != sc.size()) return false;
   for (size_t i=0; i<pc.size(); i++) if (!ClauseMatch(pc[i], sc[i])) return false;
   return true;
}

// ---- filter model.  Text form:  "-" (none) | "i<op><K>" (int32 field "v" <op> K; op one of > < = ! G L)  | "w<lo>-<hi>" (what-code range)
//                                 | "e" (field "v" exists) | "A(<f>,<f>)" | "O(<f>,<f>)"
struct Filt
{
   char kind = '-'; char op = '>'; int k = 0, lo = 0, hi = 0; std::vector<Filt> kids; std::string name;   // kinds: - i w e c n A O
   bool IsNone() const {return kind == '-';}
   // (cc, nm): the node the payload hangs on -- its child count and its name -- for the two node-aware kinds 'c' and 'n'
   bool Eval(uint32_t what, bool hasV, int32_t v, uint32_t cc = 0, const std::string & nm = std::string()) const
   {
      switch(kind)
      {
         case 'i': if (!hasV) return false;
                   switch(op) {case '>': return v > k; case '<': return v < k; case '=': return v == k; case '!': return v != k; case 'G': return v >= k; default: return v <= k;}
         case 'w': return ((int64_t) what >= lo)&&((int64_t) what <= hi);
         case 'e': return hasV;
         case 'c': {const int c = (int) cc; switch(op) {case '>': return c > k; case '<': return c < k; case '=': return c == k; case '!': return c != k; case 'G': return c >= k; default: return c <= k;}}
         case 'n': return (nm == name);
         case 't': return false;   // (needs the Message: see EvalMsg)
         case 'A': for (auto & f : kids) if (!f.Eval(what, hasV, v, cc, nm)) return false; return true;
         case 'O': for (auto & f : kids) if (f.Eval(what, hasV, v, cc, nm)) return true; return false;
         default:  return true;
      }
   }
   bool NodeAware() const {if ((kind == 'c')||(kind == 'n')) return true; for (auto & f : kids) if (f.NodeAware()) return true; return false;}
   bool EvalMsg(const muscle::Message * m, uint32_t cc = 0, const std::string & nm = std::string()) const
   {
      if (kind == '-') return true;
      if (m == NULL) return true;   // a node without any payload object is never subjected to filters (consistent throughout the server)
      int32 v = 0; const bool hasV = m->FindInt32("v", v).IsOK();
      if (HasKind('t')) return EvalFull(*m, hasV, v, cc, nm);
      return Eval(m->what, hasV, v, cc, nm);
   }
   bool HasKind(char c) const {if (kind == c) return true; for (auto & f : kids) if (f.HasKind(c)) return true; return false;}
   // full evaluation against the Message (string value #k of field "t" equals the literal; a missing value does not match)
   bool EvalFull(const muscle::Message & m, bool hasV, int32_t v, uint32_t cc, const std::string & nm) const
   {
      switch(kind)
      {
         case 't': {const muscle::String * sp = NULL; return (m.FindString("t", (uint32) k, &sp).IsOK())&&(sp)&&(name == sp->Cstr());}
         case 'A': for (auto & f : kids) if (!f.EvalFull(m, hasV, v, cc, nm)) return false; return true;
         case 'O': for (auto & f : kids) if (f.EvalFull(m, hasV, v, cc, nm)) return true; return false;
         default:  return Eval(m.what, hasV, v, cc, nm);
      }
   }
   std::string Str() const
   {
      switch(kind)
      {
         case 'i': return std::string("i") + op + I(k);
         case 'w': return "w" + I(lo) + "-" + I(hi);
         case 'e': return "e";
         case 'c': return std::string("c") + op + I(k);
         case 'n': return "n" + name + ";";
         case 't': return "t" + I(k) + name + ";";
         case 'A': case 'O': {std::string s(1, kind); s += "("; for (size_t i=0; i<kids.size(); i++) {if (i) s += ","; s += kids[i].Str();} return s + ")";}
         default:  return "-";
      }
   }
   static Filt Parse(const std::string & s, size_t & pos)
   {
      Filt f; if (pos >= s.size()) return f;
      const char c = s[pos];
      if (c == 'i')
      {
         f.kind = 'i'; pos++; if (pos < s.size()) f.op = s[pos++];
         size_t e = pos; if ((e < s.size())&&(s[e] == '-')) e++; while((e < s.size())&&(isdigit((unsigned char) s[e]))) e++;
         f.k = atoi(s.substr(pos, e-pos).c_str()); pos = e;
      }
      else if (c == 'w')
      {
         f.kind = 'w'; pos++; size_t e = pos; while((e < s.size())&&(isdigit((unsigned char) s[e]))) e++; f.lo = atoi(s.substr(pos, e-pos).c_str()); pos = e;
         if ((pos < s.size())&&(s[pos] == '-')) pos++;
         e = pos; while((e < s.size())&&(isdigit((unsigned char) s[e]))) e++; f.hi = atoi(s.substr(pos, e-pos).c_str()); pos = e;
      }
      else if (c == 'e') {f.kind = 'e'; pos++;}
      else if (c == 'c')
      {
         f.kind = 'c'; pos++; if (pos < s.size()) f.op = s[pos++];
         size_t e = pos; while((e < s.size())&&(isdigit((unsigned char) s[e]))) e++;
         f.k = atoi(s.substr(pos, e-pos).c_str()); pos = e;
      }
      else if (c == 't') {f.kind = 't'; pos++; f.k = ((pos < s.size())&&(isdigit((unsigned char) s[pos]))) ? (s[pos++]-'0') : 0; size_t e = s.find(';', pos); if (e == std::string::npos) e = s.size(); f.name = s.substr(pos, e-pos); pos = (e < s.size()) ? (e+1) : e;}
      else if (c == 'n') {f.kind = 'n'; pos++; size_t e = s.find(';', pos); if (e == std::string::npos) e = s.size(); f.name = s.substr(pos, e-pos); pos = (e < s.size()) ? (e+1) : e;}
      else if ((c == 'A')||(c == 'O'))
      {
         f.kind = c; pos++; if ((pos < s.size())&&(s[pos] == '(')) pos++;
         while((pos < s.size())&&(s[pos] != ')')) {f.kids.push_back(Parse(s, pos)); if ((pos < s.size())&&(s[pos] == ',')) pos++; else if ((pos < s.size())&&(s[pos] != ')')) pos++;}
         if (pos < s.size()) pos++;
      }
      else pos++;
      return f;
   }
   static Filt Parse(const std::string & s) {size_t p = 0; return Parse(s, p);}
   // builds the real muscle filter object (library code) for sending to the server
   muscle::ConstQueryFilterRef ToMuscle() const
   {
      using namespace muscle;
      switch(kind)
      {
         case 'i':
         {
            uint8 o = Int32QueryFilter::OP_GREATER_THAN;
            switch(op) {case '>': o = Int32QueryFilter::OP_GREATER_THAN; break; case '<': o = Int32QueryFilter::OP_LESS_THAN; break; case '=': o = Int32QueryFilter::OP_EQUAL_TO; break;
                        case '!': o = Int32QueryFilter::OP_NOT_EQUAL_TO; break; case 'G': o = Int32QueryFilter::OP_GREATER_THAN_OR_EQUAL_TO; break; default: o = Int32QueryFilter::OP_LESS_THAN_OR_EQUAL_TO; break;}
            return ConstQueryFilterRef(new Int32QueryFilter("v", o, k));
         }
         case 'w': return ConstQueryFilterRef(new WhatCodeQueryFilter((uint32) lo, (uint32) hi));
         case 'e': return ConstQueryFilterRef(new ValueExistsQueryFilter("v"));
         case 'c':
         {
            uint8 o = ChildCountQueryFilter::OP_GREATER_THAN;
            switch(op) {case '>': o = ChildCountQueryFilter::OP_GREATER_THAN; break; case '<': o = ChildCountQueryFilter::OP_LESS_THAN; break; case '=': o = ChildCountQueryFilter::OP_EQUAL_TO; break;
                        case '!': o = ChildCountQueryFilter::OP_NOT_EQUAL_TO; break; case 'G': o = ChildCountQueryFilter::OP_GREATER_THAN_OR_EQUAL_TO; break; default: o = ChildCountQueryFilter::OP_LESS_THAN_OR_EQUAL_TO; break;}
            return ConstQueryFilterRef(new ChildCountQueryFilter(o, k));
         }
         case 't': return ConstQueryFilterRef(new StringQueryFilter("t", StringQueryFilter::OP_EQUAL_TO, String(name.c_str()), (uint32) k));
         case 'n': return ConstQueryFilterRef(new NodeNameQueryFilter(NodeNameQueryFilter::OP_EQUAL_TO, String(name.c_str())));
         case 'A': {AndQueryFilter * a = new AndQueryFilter; for (auto & f : kids) (void) a->GetChildren().AddTail(f.ToMuscle()); return ConstQueryFilterRef(a);}
         case 'O': {OrQueryFilter * a = new OrQueryFilter; for (auto & f : kids) (void) a->GetChildren().AddTail(f.ToMuscle()); return ConstQueryFilterRef(a);}
         default:  return ConstQueryFilterRef();
      }
   }
   muscle::MessageRef ToArchive() const
   {
      muscle::ConstQueryFilterRef f = ToMuscle(); if (f() == NULL) return muscle::MessageRef();
      muscle::MessageRef m = muscle::GetMessageFromPool(); if (f()->SaveToArchive(*m()).IsError()) return muscle::MessageRef();
      return m;
   }
};

}} // namespace vs::match
