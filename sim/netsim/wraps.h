// sim/netsim/wraps.h -- link-time seams (-Wl,--wrap=...) for clock, sleep and select in the single-threaded netsim engine
#pragma once
#include <stdint.h>
#include <sys/select.h>
namespace vs {
extern uint64_t g_simNowUs;        // the simulated clock (microseconds); the only clock the system under test reads
extern uint64_t g_simClockReads;   // how often it was read (each read advances it by 1us so code that times itself sees progress)
extern uint64_t g_simStartUs;
void SimClockReset(uint64_t startUs = 1000000);
void SimClockAdvance(uint64_t deltaUs);
// select() of descriptors owned by the simulator is answered by this handler; it must not block.
typedef int (*SimSelectHandler)(int nfds, fd_set * r, fd_set * w, fd_set * e, struct timeval * tv);
extern SimSelectHandler g_simSelectHandler;
// Installs the MUSCLE_VERIF_HOOKS PRNG seam (GetInsecurePseudoRandomNumber32/64 -> this deterministic stream) and reseeds it.
void SimRandomReset(uint64_t seed);
}
