// sim/netsim/msggen.h -- deterministic Message generator: (gseed, class) -> Message.  Pure function of its arguments.
#pragma once
#include <string>
#include <math.h>
#include "message/Message.h"
#include "util/ByteBuffer.h"
#include "support/Point.h"
#include "support/Rect.h"
#include "../core/core.h"

namespace vs {

enum {
   MSGCLS_TINY = 0,     // 0-2 fields
   MSGCLS_SMALL,        // a handful of fields, all types
   MSGCLS_EDGE,         // flattened size near 2040 / 2048 bytes (gateway scratch buffer)
   MSGCLS_LARGE,        // several KB .. 100KB
   MSGCLS_NESTED,       // nesting depth 3-6
   MSGCLS_SHAPED,       // one of 10 fixed shapes with varying values (template-cache hits, zlib back-references)
   MSGCLS_COMMON,       // only the type repertoire common to the C mini/micro codecs
   MSGCLS_MANYFIELDS,   // field and item COUNTS at container boundaries: 254..258, 511..513, 1023..1025 (rarely 65535..65537) small fields; one field with such a count of items
   NUM_MSGCLS
};

inline std::string Flat(const muscle::Message & m)
{
   muscle::ByteBuffer bb; (void) m.FlattenToByteBuffer(bb);
   return std::string((const char *) bb.GetBuffer(), bb.GetNumBytes());
}
inline std::string Flat(const muscle::MessageRef & m) {return m() ? Flat(*m()) : std::string("<null>");}

namespace msggen_detail {
static const char * kNames[] = {"a", "bb", "ccc", "s", "m", "longer_field_name", "x", "!SnKy", "", "f9"};
inline void AddRandomField(muscle::Message & m, Rng & r, const char * fn, int depth, int maxDepth, bool commonOnly, uint32_t rawMax);
inline muscle::MessageRef Gen(Rng & r, int numFields, int depth, int maxDepth, bool commonOnly, uint32_t rawMax)
{
   muscle::MessageRef m = muscle::GetMessageFromPool((uint32)(r.oneIn(3) ? r.u32() : r.below(6)));
   for (int i=0; i<numFields; i++) AddRandomField(*m(), r, kNames[r.below(commonOnly ? 7 : 10)], depth, maxDepth, commonOnly, rawMax);
   return m;
}
inline void AddRandomField(muscle::Message & m, Rng & r, const char * fn, int depth, int maxDepth, bool commonOnly, uint32_t rawMax)
{
   using namespace muscle;
   const int cnt = r.oneIn(3) ? (2 + (int) r.below(4)) : 1;
   const int kind = (int) r.below(commonOnly ? 11 : 13);
   for (int c=0; c<cnt; c++) switch(kind)
   {
      case 0:  (void) m.AddInt32(fn, (int32) r.u32()); break;
      case 1:  {String s; const uint32 len = r.oneIn(6) ? 0 : r.below(r.oneIn(8) ? 300 : 24); for (uint32 k=0; k<len; k++) s += (char)(r.oneIn(10) ? (0x80 + r.below(0x7f)) : ('a' + r.below(26))); (void) m.AddString(fn, s);} break;
      case 2:  (void) m.AddBool(fn, r.oneIn(2)); break;
      case 3:  (void) m.AddInt64(fn, (int64) r.u64()); break;
      case 4:  {static const double sp[] = {0.0, -0.0, 1.5, -3.25e300, 1e-310, INFINITY, -INFINITY, NAN}; (void) m.AddDouble(fn, r.oneIn(3) ? sp[r.below(8)] : ((double) r.below(100000) / 7.0));} break;
      case 5:  (void) m.AddFloat(fn, r.oneIn(4) ? NAN : ((float) r.below(1000) / 3.0f)); break;
      case 6:  (void) m.AddInt8(fn, (int8) r.u32()); break;
      case 7:  (void) m.AddInt16(fn, (int16) r.u32()); break;
      case 8:  (void) m.AddPoint(fn, Point((float) r.below(100), -(float) r.below(100))); break;
      case 9:  (void) m.AddRect(fn, Rect((float) r.below(10), (float) r.below(10), (float) r.below(100), (float) r.below(100))); break;
      case 10: if (depth < maxDepth) (void) m.AddMessage(fn, Gen(r, (int) r.below(4), depth+1, maxDepth, commonOnly, rawMax)); else (void) m.AddInt32(fn, 7); break;
      case 11: {const uint32 n = r.oneIn(5) ? 0 : r.below(rawMax+1); ByteBuffer bb; (void) bb.SetNumBytes(n, false); uint8 * p = bb.GetBuffer(); const uint32 mode = r.below(3); for (uint32 k=0; k<n; k++) p[k] = (mode == 0) ? (uint8) r.u32() : ((mode == 1) ? (uint8)(k*7) : (uint8) 0xC0);
                static const uint32 tc[] = {B_RAW_TYPE, 0x12345678, 0, B_MESSAGE_TYPE+1, 0xffffffffu}; (void) m.AddData(fn, tc[r.below(5)], p, n);} break;
      default: {const uint32 n = r.below(rawMax+1); ByteBuffer bb; (void) bb.SetNumBytes(n, false); uint8 * p = bb.GetBuffer(); for (uint32 k=0; k<n; k++) p[k] = (uint8)(r.u32()); (void) m.AddFlat(fn, bb);} break;
   }
}
} // namespace

inline muscle::MessageRef GenMessage(uint64_t gseed, int cls, int shapeOverride = -1)   // shapeOverride (SHAPED only): use that shape number instead of drawing one
{
   using namespace muscle;
   using namespace msggen_detail;
   Rng r(gseed, "msg");
   switch(cls)
   {
      case MSGCLS_TINY:   return Gen(r, (int) r.below(3), 0, 1, false, 16);
      case MSGCLS_SMALL:  return Gen(r, 1 + (int) r.below(6), 0, 2, false, 60);
      case MSGCLS_EDGE:
      {
         // aim the flattened size at the neighbourhood of 2040/2048 by padding with a raw field
         MessageRef m = Gen(r, (int) r.below(4), 0, 1, false, 40);
         static const uint32 targets[] = {2030, 2039, 2040, 2041, 2047, 2048, 2049, 2056, 4088, 4096, 2032};
         const uint32 target = targets[r.below(11)];
         const uint32 base = m()->FlattenedSize();
         const uint32 overhead = 4+4 /*name len + "pad\0"*/ + 4 /*type*/ + 4 /*payload len*/ + 4 /*item len*/;
         if (base + overhead < target) {const uint32 n = target - base - overhead; ByteBuffer bb; (void) bb.SetNumBytes(n, false); for (uint32 k=0; k<n; k++) bb.GetBuffer()[k] = (uint8)(k*13+gseed); (void) m()->AddData("pad", B_RAW_TYPE, bb.GetBuffer(), n);}
         return m;
      }
      case MSGCLS_LARGE:  return Gen(r, 2 + (int) r.below(6), 0, 2, false, r.oneIn(4) ? 100000 : 6000);
      case MSGCLS_NESTED: return Gen(r, 1 + (int) r.below(3), 0, 3 + (int) r.below(4), false, 30);
      case MSGCLS_SHAPED:
      {
         const uint32 drawn = r.below(10); const uint32 shape = (shapeOverride >= 0) ? ((uint32) shapeOverride % 10) : drawn;
         Rng sr(shape*7919+1, "shape");   // the shape depends on the shape number only
         MessageRef m = GetMessageFromPool(shape);
         // (now and then a field that is never serialised -- a pointer -- sits in front of the others: it must not count for the template the two ends agree on)
         if (r.oneIn(5)) {static int dummy = 0; (void) m()->AddPointer("ptr", &dummy);}
         const int nf = 1 + (int) sr.below(5);
         for (int i=0; i<nf; i++)
         {
            char fn[16]; snprintf(fn, sizeof(fn), "f%d", i);
            switch(sr.below(6))
            {
               case 0: (void) m()->AddInt32(fn, (int32) r.below(4)); if (r.oneIn(4)) {const int more = 1 + (int) r.below(2); for (int q=0; q<more; q++) (void) m()->AddInt32(fn, (int32) r.below(4));} break;   /* the same field name and type with a different NUMBER of values is a different template */
               case 1: (void) m()->AddString(fn, r.oneIn(2) ? "the same string every time, more or less" : "another fairly common string"); break;
               case 2: (void) m()->AddInt64(fn, (int64) r.below(3)); (void) m()->AddInt64(fn, 5); break;
               case 3:
               {
                  // a Message-type field with 1-3 sub-Messages whose layouts DIFFER from one another (each sub-Message has its own sub-template), the last one possibly nested once more
                  const int nsubs = 1 + (int) sr.below(3); const bool deep = sr.oneIn(3);
                  for (int k=0; k<nsubs; k++)
                  {
                     MessageRef sub = GetMessageFromPool(77 + (uint32) k);
                     if (k == 0) {(void) sub()->AddInt32("q", (int32) r.below(2)); (void) sub()->AddString("z", "sub");}
                     else if (k == 1) {(void) sub()->AddString("name", r.oneIn(2) ? "n1" : "another name"); (void) sub()->AddFloat("v", (float) r.below(4)); (void) sub()->AddInt8("b", (int8) r.below(3));}
                     else {(void) sub()->AddInt64("w", (int64) r.below(5)); if (deep) {MessageRef ss = GetMessageFromPool(5); (void) ss()->AddInt16("h", (int16) r.below(9)); (void) ss()->AddString("t", "deep"); (void) sub()->AddMessage("ss", ss);}}
                     (void) m()->AddMessage(fn, sub);
                  }
               }
               break;
               case 4: (void) m()->AddBool(fn, r.oneIn(2)); break;
               default: (void) m()->AddDouble(fn, (double) r.below(3)); break;
            }
         }
         return m;
      }
      case MSGCLS_COMMON: return Gen(r, (int) r.below(6), 0, 2, true, 40);
      case MSGCLS_MANYFIELDS:
      {
         static const uint32 counts[] = {254, 255, 256, 257, 258, 511, 512, 513, 1023, 1024, 1025, 127, 128, 129, 100};
         static const uint32 huge[] = {65535, 65536, 65537};
         const uint32 nf = r.oneIn(30) ? huge[r.below(3)] : counts[r.below(15)];
         MessageRef m = GetMessageFromPool((uint32) r.below(6));
         for (uint32 i=0; i<nf; i++) {char fn[16]; snprintf(fn, sizeof(fn), "k%u", i); if ((i % 7) == 3) (void) m()->AddBool(fn, (i & 8) != 0); else (void) m()->AddInt32(fn, (int32)(i*2654435761u));}
         if (r.oneIn(2)) {const uint32 ni = counts[r.below(15)]; for (uint32 i=0; i<ni; i++) (void) m()->AddInt8("items", (int8) i);}
         return m;
      }
      default:            return Gen(r, 1, 0, 1, false, 8);
   }
}

} // namespace vs
