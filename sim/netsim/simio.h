// sim/netsim/simio.h -- simulated byte-stream transport: SimStream (one direction) and SimDataIO (a DataIO over two SimStreams)
#pragma once
#include <deque>
#include <vector>
#include <string>
#include "dataio/DataIO.h"
#include "util/Socket.h"
#include "../core/core.h"

namespace vs {

// One direction of a connection: a byte queue plus a cyclic chunk schedule per end.
// The schedule is part of the plan; SimDataIO draws no randomness.
struct SimStream
{
   std::deque<uint8_t> q;
   std::vector<uint32_t> wsched, rsched;   // cyclic; 0 = would-block for this call
   size_t wi = 0, ri = 0;
   bool closed = false;       // writer closed: reader gets EOF once q is drained
   bool broken = false;       // reader gone: writer gets an error
   uint64_t capacity = (uint64_t)-1;
   uint64_t totalWritten = 0, totalRead = 0;
   // fault counters (what actually fired)
   uint64_t shortWrites = 0, shortReads = 0, wouldBlocks = 0, oneByte = 0;
   int64_t cutAfter = -1;     // if >= 0: after this many more bytes have been written the stream is closed (writer side cut)
   const std::string * floodUnit = NULL;   // if set: the writer is a flooding peer -- whenever the reader comes back there is more of this (whole frames), without end
   uint64_t flooded = 0;

   uint32_t NextW() {if (wsched.empty()) return 0xffffffffu; uint32_t v = wsched[wi % wsched.size()]; wi++; return v;}
   uint32_t NextR() {if (rsched.empty()) return 0xffffffffu; uint32_t v = rsched[ri % rsched.size()]; ri++; return v;}
   void SetSched(bool write, const std::vector<uint32_t> & v) {std::vector<uint32_t> & s = write ? wsched : rsched; s = v; bool allZero = !s.empty(); for (auto x : s) if (x) allZero = false; if (allZero) s.push_back(1); (write ? wi : ri) = 0;}

   // returns #bytes written, or -1 on error
   int64_t Write(const void * b, uint32_t n)
   {
      if ((broken)||(closed)) return -1;
      uint32_t lim = NextW();
      uint64_t room = (capacity > q.size()) ? (capacity - q.size()) : 0;
      uint32_t k = n; if (k > lim) k = lim; if ((uint64_t) k > room) k = (uint32_t) room;
      if (cutAfter >= 0) {if ((int64_t) k >= cutAfter) {k = (uint32_t) cutAfter;}}
      if ((k == 0)&&(n > 0)) wouldBlocks++; else if (k < n) shortWrites++;
      if (k == 1) oneByte++;
      const uint8_t * p = (const uint8_t *) b; q.insert(q.end(), p, p+k); totalWritten += k;
      if (cutAfter >= 0) {cutAfter -= k; if (cutAfter == 0) {closed = true; cutAfter = -1;}}
      return k;
   }
   // returns #bytes read, 0 = nothing available now, -1 = EOF
   int64_t Read(void * b, uint32_t n)
   {
      if ((floodUnit)&&(!floodUnit->empty())&&(q.size() < 65536)) {while(q.size() < 131072) {q.insert(q.end(), floodUnit->begin(), floodUnit->end()); flooded += floodUnit->size(); totalWritten += floodUnit->size();}}
      if (q.empty()) return closed ? -1 : 0;
      uint32_t lim = NextR();
      uint32_t k = n; if (k > lim) k = lim; if ((size_t) k > q.size()) k = (uint32_t) q.size();
      if ((k == 0)&&(n > 0)) wouldBlocks++; else if ((k < n)&&((size_t) k < q.size())) shortReads++;
      if (k == 1) oneByte++;
      uint8_t * p = (uint8_t *) b; for (uint32_t i=0; i<k; i++) p[i] = q[i];
      q.erase(q.begin(), q.begin()+k); totalRead += k;
      return k;
   }
};

class SimDataIO : public muscle::DataIO
{
public:
   SimDataIO(SimStream * in, SimStream * out, const muscle::ConstSocketRef & sel = muscle::ConstSocketRef()) : _in(in), _out(out), _sel(sel), _shutdown(false) {}
   virtual muscle::io_status_t Read(void * b, uint32 n)
   {
      if (_shutdown) return muscle::io_status_t(muscle::B_BAD_OBJECT);
      int64_t r = _in->Read(b, n);
      if (r < 0) return muscle::io_status_t(muscle::B_END_OF_STREAM);
      return muscle::io_status_t((int32) r);
   }
   virtual muscle::io_status_t Write(const void * b, uint32 n)
   {
      if (_shutdown) return muscle::io_status_t(muscle::B_BAD_OBJECT);
      int64_t r = _out->Write(b, n);
      if (r < 0) return muscle::io_status_t(muscle::B_IO_ERROR);
      return muscle::io_status_t((int32) r);
   }
   virtual void FlushOutput() {}
   virtual void Shutdown() {_shutdown = true; _sel.Reset();}
   virtual uint64 GetOutputStallLimit() const {return _stallLimit;}   // (as a TCP socket has one: a session whose pending output has not moved for that long is dropped by the server)
   uint64 _stallLimit = MUSCLE_TIME_NEVER;
   virtual const muscle::ConstSocketRef & GetReadSelectSocket()  const {return _sel() ? _sel : muscle::GetNullSocket();}
   virtual const muscle::ConstSocketRef & GetWriteSelectSocket() const {return _sel() ? _sel : muscle::GetNullSocket();}
   SimStream * _in, * _out;
   muscle::ConstSocketRef _sel;
   bool _shutdown;
};

// chunk-schedule classes (section 2.7 of DESIGN.md); pure function of the rng
inline std::vector<uint32_t> GenChunkSchedule(Rng & r, int cls /* -1 = pick */)
{
   std::vector<uint32_t> v;
   if (cls < 0) cls = (int) r.below(6);
   const int n = 1 + (int) r.below(6);
   static const uint32_t bnd[] = {7,8,9,11,12,13,2039,2040,2041,2047,2048,2049,4,16};
   for (int i=0; i<n; i++)
   {
      switch(cls)
      {
         case 0:  v.push_back(0xffffffffu); break;                              // whole
         case 1:  v.push_back(1); break;                                        // one byte at a time
         case 2:  v.push_back(1 + r.below(7)); break;                           // small 1..7
         case 3:  v.push_back(r.pick(bnd)); break;                              // boundary values
         case 4:  v.push_back(r.oneIn(3) ? 0 : (1 + r.below(3000))); break;     // mixed with would-blocks
         default: v.push_back(r.oneIn(4) ? 0 : (r.oneIn(2) ? 1 : (1 + r.below(40)))); break;  // tiny with would-blocks
      }
   }
   return v;
}
inline std::string SchedToStr(const std::vector<uint32_t> & v) {std::string s; for (auto x : v) {if (!s.empty()) s += " "; s += U(x);} return s;}

} // namespace vs
