// sim/netsim/server.h -- the netsim/server harness: a real ReflectServer stepped one event-loop iteration at a time under the wrapped
// select()/clock, N simulated clients with real MessageIOGateways over SimStreams, observation at the server's linearisation points,
// client-side models (mirror, ordered-index replicas, routed-message logs), and the shared oracles of C04/C05/C06/C07/C13.
#pragma once
#include <map>
#include <set>
#include <string>
#include <vector>
#include <memory>
#include <sys/eventfd.h>
#include <unistd.h>
#include "system/SetupSystem.h"
#include "reflector/ReflectServer.h"
#include "reflector/StorageReflectSession.h"
#include "reflector/StorageReflectConstants.h"
#include "reflector/DataNode.h"
#include "iogateway/MessageIOGateway.h"
#include "regex/QueryFilter.h"
#include "regex/PathMatcher.h"
#include "syslog/SysLog.h"
#include "../core/core.h"
#include "simio.h"
#include "wraps.h"
#include "msggen.h"
#include "match.h"

namespace vs { namespace srv {

using namespace muscle;
using match::Filt;

enum {MARKER_WHAT = 777777, ROUTED_WHAT = 0x726f7574 /* 'rout' */, BARE_BASE = 0x62000000, BARE_SPAN = 64*100000};   // a BARE routed Message has no field at all: its what-code is BARE_BASE + sender conn*100000 + seq
static const char * kOpIdField = "vsim_opid";

struct Sub {Filt filt; bool quiet = false;};
struct PendingSubOp {bool isSub; std::string pat; Filt filt; bool quiet; bool all; std::vector<std::pair<std::string, Filt> > more;};

struct Oracles
{
   bool mirror = false;      // C04: client mirror == matching part of the real tree at quiescence
   bool marks = false;       // C04/C06: DataNode::GetSubscribers() == model, after every processed command
   bool route = false;       // C05: routed Messages reach exactly the expected sessions once, in order, true sender id; traversal == brute force
   bool isolation = false;   // C06: a command changes nothing outside its session's subtree / other sessions' state; cleanup after departure
   bool index = false;       // C13: index replica == real index; index well-formedness after every command
   bool liveness = false;    // C07: witness ping answered within N server steps
};

class ServerSim;

struct Conn
{
   int idx = -1; int fd = -1; bool up = false; bool everUp = false;
   SimStream c2s, s2c;
   AbstractReflectSessionRef session; uint32 sid = 0; std::string host, root;   // root = "/host/sid"
   bool self = false;              // reflect-to-self as the SERVER holds it (switched at the linearisation point)
   // client side
   std::unique_ptr<MessageIOGateway> gw; QueueGatewayMessageReceiver rq;
   bool noread = false, stalled = false, hostile = false, witness = false;
   std::vector<MessageRef> batch;  // pending sub-commands of a BATCH under construction
   uint64_t cmdsSent = 0, cmdsProcessed = 0; std::vector<uint64_t> cmdEndOffsets; uint64_t bytesQueuedTotal = 0;   // for "no partially received command is processed"
   // server-side model (as of the last processed command)
   std::map<std::string, Sub> serverSubs;
   std::vector<std::string> defaultRoute; std::vector<Filt> defaultRouteFilts; bool hasDefaultRoute = false;
   // client-side model (as of the last marker the client has read)
   std::map<std::string, Sub> clientSubs; std::map<int, PendingSubOp> pending;
   std::map<std::string, std::string> mirror;               // path -> payload bytes
   std::map<std::string, std::vector<std::string> > lists;  // parent path -> replica of its ordered index
   struct RoutedRx {int fromConn; uint32 fromSid; int seq; std::string sessionField;};
   std::vector<RoutedRx> routedGot;
   std::vector<int> pongs;         // tags of PONGs received
   uint64_t msgsReceived = 0;
   std::string departedHow;        // "", "close", "cut", "reset"
   bool departureChecked = false;
   bool everEmptyClause = false;   // ... or subscribed to a path with an empty clause (finding F9)
   bool everAliased = false;       // this session has at some point held two parameter names normalising to one subscription path (finding F14)
};

class SimSession : public StorageReflectSession
{
public:
   SimSession(ServerSim * sim, int connIdx) : _sim(sim), _connIdx(connIdx) {}
   virtual DataIORef CreateDataIO(const ConstSocketRef & s);
   // fault: a session whose own start-up step fails AFTER the library's part of attaching (node created, subscribers told) has succeeded -- as a subclass whose worker
   // thread cannot be launched would; the server refuses the session and must take back everything the half-attached session had put into the tree
   virtual status_t AttachedToServer() {MRETURN_ON_ERROR(StorageReflectSession::AttachedToServer()); if (_failAttach) return B_ERROR("simulated: the session's own start-up step failed"); return B_NO_ERROR;}
   bool _failAttach = false; SimStream _ghIn, _ghOut;
   virtual String GenerateHostName(const IPAddress &, const String &) const;
   virtual void MessageReceivedFromGateway(const MessageRef & msg, void * ud);
   DataNode & Root() const {return GetGlobalRoot();}
   void QueueMarker(int opid) {MessageRef mk = GetMessageFromPool(MARKER_WHAT); (void) mk()->AddInt32(kOpIdField, opid); (void) AddOutgoingMessage(mk);}
   uint32 OutQueueLen() {AbstractMessageIOGateway * g = GetGateway()(); return g ? g->GetOutgoingMessageQueue().GetNumItems() : 0;}
   // server-side subtree operations that StorageReflectSession offers to subclasses (the property's "subtree clones/restores"); updates are pushed as after a command
   status_t DoClone(const String & srcRel, const String & dstRel, SetDataNodeFlags flags)
   {
      DataNode * n = GetDataNode(srcRel); if (n == NULL) return B_DATA_NOT_FOUND;
      const status_t r = CloneDataNodeSubtree(*n, dstRel, flags); PushSubscriptionMessages(); return r;
   }
   status_t DoSaveRestore(const String & srcRel, const String & dstRel, SetDataNodeFlags flags)
   {
      DataNode * n = GetDataNode(srcRel); if (n == NULL) return B_DATA_NOT_FOUND;
      Message saved; MRETURN_ON_ERROR(SaveNodeTreeToMessage(saved, n, GetEmptyString(), true));
      const status_t r = RestoreNodeTreeFromMessage(saved, dstRel, true, flags); PushSubscriptionMessages(); return r;
   }
   // public access to the traversal entry points, for the "traversal == brute force" clause of C05
   void FindNodes(const String & pattern, Queue<DataNodeRef> & out) const {(void) FindMatchingNodes(pattern, ConstQueryFilterRef(), out, MUSCLE_NO_LIMIT);}
private:
   ServerSim * _sim; int _connIdx;
};

// what the harness knows about one routed Message, fixed at the instant the server processed it
struct RoutedExpect {int fromConn; uint32 fromSid; int seq; std::set<uint32> expectSids; std::string keysDesc;};

class ServerSim
{
public:
   Oracles orc; RunResult & res; TraceHash th; Stats & st;
   ReflectServer * server = NULL;
   std::vector<std::unique_ptr<Conn> > conns;
   std::map<int, int> fdToConn;
   uint64 nextPulse = MUSCLE_TIME_NEVER;
   uint64_t steps = 0, cmdsProcessed = 0;
   std::vector<RoutedExpect> routed;          // index = order of processing
   int currentCmdConn = -1; int cmdDepth = 0; std::vector<MessageRef> cmdCopies;
   std::map<std::string, std::string> snapBefore;   // isolation: tree snapshot at command begin
   std::map<std::string, std::string> othersBefore; // isolation: other sessions' observable state at command begin
   std::vector<std::string> departedRoots;    // roots of sessions that have left (must never reappear)
   int hostileConn = -1; int witnessConn = -1; int witnessPingTag = 0; int64_t witnessPingSentAtStep = -1; int witnessOutstanding = -1;
   bool inQuiesce = false;
   uint64_t stallUs = 0;   // output stall limit of every server-side transport (0 = none)
   bool floodNoop = false;
   std::set<std::string> dontCare;   // paths last written or removed QUIETLY: subscribers were deliberately not told, so mirrors may differ there until the next loud write
   bool skipReplicaCompare = false;   // C13 runs that remove indexed children QUIETLY: replicas legitimately go stale, only the server-side index invariants are checked
   bool recordContent = false; std::vector<std::string> contentLog;   // C10's history-independence differential: everything the clients were sent, in order
   static ServerSim * s_cur;

   ServerSim(RunResult & r) : res(r), st(r.stats) {s_cur = this; g_simSelectHandler = &ServerSim::SelectHandler; server = new ReflectServer;}
   ~ServerSim()
   {
      // orderly teardown so nothing leaks into the next run of this process
      for (auto & c : conns) if (c) {c->c2s.closed = true; c->s2c.broken = true;}
      if (server) {server->Cleanup(); delete server; server = NULL;}
      for (auto & c : conns) if (c) {c->session.Reset(); if (c->fd >= 0) close(c->fd);}
      g_simSelectHandler = NULL; s_cur = NULL;
   }

   Conn * C(int i) {return ((i >= 0)&&((size_t) i < conns.size())&&(conns[i])) ? conns[i].get() : NULL;}
   Conn * UpC(int i) {Conn * c = C(i); return ((c)&&(c->up)) ? c : NULL;}
   int PickUp(int i) {std::vector<int> ups; for (auto & c : conns) if ((c)&&(c->up)) ups.push_back(c->idx); if (ups.empty()) return -1; for (int u : ups) if (u == i) return i; return ups[((i % (int) ups.size()) + (int) ups.size()) % (int) ups.size()];}
   SimSession * Sess(Conn * c) {return static_cast<SimSession *>(c->session());}
   SimSession * AnySess() {for (auto & c : conns) if ((c)&&(c->session())&&(c->session()->IsAttachedToServer())) return Sess(c.get()); return NULL;}

   // ------------------------------------------------------------------ select() answered by the simulator
   static int SelectHandler(int n, fd_set * r, fd_set * w, fd_set * e, struct timeval *)
   {
      ServerSim * s = s_cur; int cnt = 0;
      for (int fd=0; fd<n; fd++)
      {
         const bool rr = (r)&&(FD_ISSET(fd, r)), ww = (w)&&(FD_ISSET(fd, w));
         if ((!rr)&&(!ww)) continue;
         auto it = s ? s->fdToConn.find(fd) : std::map<int,int>::iterator();
         Conn * c = ((s)&&(it != s->fdToConn.end())) ? s->C(it->second) : NULL;
         if (c == NULL) {if (r) FD_CLR(fd, r); if (w) FD_CLR(fd, w); continue;}
         if (rr) {if ((!c->stalled)&&((c->c2s.q.size() > 0)||(c->c2s.closed))) cnt++; else FD_CLR(fd, r);}
         if (ww) {if ((c->s2c.broken)||((uint64_t) c->s2c.q.size() < c->s2c.capacity)) cnt++; else FD_CLR(fd, w);}
      }
      if (e) FD_ZERO(e);
      return cnt;
   }

   // ------------------------------------------------------------------ actors
   void Connect(int idx, const std::string & host, bool wantSelf)
   {
      if (idx < 0) return;
      if ((size_t) idx >= conns.size()) conns.resize(idx+1);
      if ((conns[idx])&&(conns[idx]->up)) return;
      std::unique_ptr<Conn> old; old.swap(conns[idx]);
      if (old) {if (old->fd >= 0) {fdToConn.erase(old->fd); close(old->fd);} retired.push_back(std::move(old));}
      conns[idx].reset(new Conn); Conn * c = conns[idx].get();
      c->idx = idx; c->host = host; c->fd = eventfd(0, 0);
      if (c->fd < 0) Fail("harness", "eventfd failed");
      fdToConn[c->fd] = idx;
      SimSession * ss = new SimSession(this, idx); c->session.SetRef(ss);
      if (server->AddNewSession(c->session, ConstSocketRef(new Socket(c->fd, false))).IsError()) Fail("harness", "AddNewSession failed");
      c->sid = ss->GetSessionID(); c->root = "/" + host + "/" + std::string(ss->GetSessionIDString()());
      c->up = c->everUp = true; c->hostile = (idx == hostileConn); c->witness = (idx == witnessConn);
      c->gw.reset(new MessageIOGateway); c->gw->SetDataIO(DataIORef(new SimDataIO(&c->s2c, &c->c2s)));
      th.s("connect"); th.u((uint64_t) idx); th.u(c->sid);
      st.inc("sessions_connected");
      if (wantSelf) {MessageRef m = GetMessageFromPool(PR_COMMAND_SETPARAMETERS); (void) m()->AddBool(PR_NAME_REFLECT_TO_SELF, true); SendMsg(c, m);}
      if (orc.marks) CheckMarks("after session arrival");
   }
   std::vector<std::unique_ptr<Conn> > retired;
   // a connection whose session fails to start up (see SimSession::AttachedToServer): the server must refuse it and leave no trace of it
   void GhostConnect()
   {
      const int fd = eventfd(0, 0); if (fd < 0) Fail("harness", "eventfd failed");
      {
         SimSession * ss = new SimSession(this, -1); ss->_failAttach = true; AbstractReflectSessionRef ref(ss);
         const status_t r = server->AddNewSession(ref, ConstSocketRef(new Socket(fd, false)));
         th.s("ghost"); th.u(r.IsOK() ? 1 : 0); st.inc("f.session_startup_failure");
         if (r.IsOK()) Fail("harness", "a session whose AttachedToServer() failed was accepted");
      }
      close(fd);
      SimSession * s = AnySess(); if (s == NULL) return;
      if (orc.isolation) WalkTree(s->Root(), [&](DataNode & n, const std::string & p) {(void) n; if ((p == "/gh")||(p.compare(0, 4, "/gh/") == 0)) Fail("refused_session_subtree_remains", "a connection's session failed to start up and was refused by the server, but node " + p + " (created while it attached) is still in the tree");});
      if (orc.marks) CheckMarks("after a refused session");
   }

   // client c queues one command and writes as much as the (possibly cut) stream takes
   void SendMsg(Conn * c, const MessageRef & m)
   {
      if ((c == NULL)||(!c->up)||(m() == NULL)) return;
      const uint32 fs = m()->FlattenedSize() + 8;
      c->bytesQueuedTotal += fs; c->cmdEndOffsets.push_back(c->bytesQueuedTotal); c->cmdsSent++;
      (void) c->gw->AddOutgoingMessage(m);
      for (int i=0; (i<1000)&&(c->gw->HasBytesToOutput()); i++) {const io_status_t r = c->gw->DoOutput(); if ((r.IsError())||(r.GetByteCount() <= 0)) break;}
      st.inc("cmds_sent");
   }
   void ServerStep()
   {
      SetCurOp("server step %llu (last command: %s)", (unsigned long long) steps, lastCmdDesc.c_str());
      WatchdogArm(0);
      const status_t r = server->ServerProcessLoop(0, &nextPulse);
      steps++; st.inc("server_steps");
      if (r.IsError()) Fail("server_loop_error", std::string("ServerProcessLoop returned ") + r());
      // notice departures
      std::vector<Conn *> gone;
      for (auto & cp : conns) {Conn * c = cp.get(); if ((c)&&(c->up)&&(c->session())&&(c->session()->IsAttachedToServer() == false)) {c->up = false; gone.push_back(c);}}   // all of this step's departures first
      for (Conn * c : gone) NoteDeparture(c);
      if ((witnessConn >= 0)&&(UpC(witnessConn))) ClientRead(UpC(witnessConn));   // the witness is never slow: it reads after every server step
      if ((orc.liveness)&&(witnessOutstanding >= 0)&&(witnessPingSentAtStep >= 0)&&((int64_t) steps - witnessPingSentAtStep > 64))
         Fail("witness_ping_unanswered", "the witness client's ping (tag " + I(witnessOutstanding) + ") was not answered within 64 server steps of its delivery; last hostile command: " + lastHostileDesc);
   }
   void NoteDeparture(Conn * c)
   {
      c->up = false; th.s("departed"); th.u((uint64_t) c->idx);
      st.inc("sessions_departed");
      departedRoots.push_back(c->root);
      if (c->idx == witnessConn) {witnessOutstanding = -1;}
      if (orc.marks) CheckMarks("after session departure");
      if (((orc.isolation)||((orc.liveness)&&(!c->hostile)))&&(c->departedHow.empty())) Fail("session_disconnected_without_cause", "session " + c->root + " was disconnected by the server although its connection was never closed, cut or reset; last command: " + lastCmdDesc);
      if (orc.isolation) CheckDepartureCleanup(c);
   }
   // client c reads and interprets whatever has arrived
   void ClientRead(Conn * c)
   {
      if ((c == NULL)||(c->gw.get() == NULL)) return;
      for (int i=0; i<64; i++)
      {
         const io_status_t r = c->gw->DoInput(c->rq);
         MessageRef m; while(c->rq.GetMessages().RemoveHead(m).IsOK()) ClientGot(c, m);
         if ((r.IsError())||(r.GetByteCount() <= 0)) break;
      }
   }

   // ------------------------------------------------------------------ the linearisation points
   std::string lastCmdDesc, lastHostileDesc;
   void OnCommandBegin(int connIdx, const MessageRef & msg)
   {
      Conn * c = C(connIdx); if ((c == NULL)||(msg() == NULL)) return;
      if ((c->c2s.flooded > 0)&&(msg()->what == PR_COMMAND_NOOP)&&(cmdDepth == 0)) {floodNoop = true; st.inc("flood_noops_processed"); return;}   // a flooding client's NOOPs: no model work, no per-command oracles
      currentCmdConn = connIdx; cmdsProcessed++;
      const bool topLevel = (cmdDepth++ == 0);   // sub-commands of a BATCH re-enter here
      cmdCopies.push_back(GetMessageFromPool(*msg()));   // the handler may move fields out of the command (SETPARAMETERS does): the model reads this copy
      if (topLevel) c->cmdsProcessed++; else st.inc("p.batch_subcommand");
      char wb[64]; snprintf(wb, sizeof(wb), "conn %d what=%u (%u fields)", connIdx, msg()->what, msg()->GetNumNames()); lastCmdDesc = wb;
      if (c->hostile)
      {
         lastHostileDesc = lastCmdDesc; st.inc("p.hostile_cmds_processed");
         const uint32 hw = msg()->what;
         if ((hw >= (uint32) BEGIN_PR_COMMANDS)&&(hw <= (uint32) END_PR_COMMANDS)) st.inc("p.handler_reached_" + U(hw - (uint32) BEGIN_PR_COMMANDS)); else st.inc("p.handler_reached_routed");
         const uint32 ql = Sess(c)->OutQueueLen(); st.max("max.hostile_output_queue", ql);
         if ((hw == PR_COMMAND_JETTISONRESULTS)&&(ql >= 2)) {st.inc("p.jettison_with_queue_ge2"); if (msg()->HasName(PR_NAME_FILTERS)) st.inc("p.jettison_filtered_with_queue_ge2");}
         if ((hw == PR_COMMAND_BATCH)&&(cmdDepth >= 99)) st.inc("p.batch_depth_ge100");
      }
      th.s("cmd"); th.u((uint64_t) connIdx); th.u(msg()->what);
      st.inc("cmds_processed");
      // a partially received command must never be processed: the k-th processed command must have been completely delivered
      if ((orc.isolation)&&(topLevel))
      {
         const uint64_t delivered = c->c2s.totalRead;
         if ((c->cmdsProcessed > c->cmdEndOffsets.size())||(c->cmdEndOffsets[c->cmdsProcessed-1] > delivered))
            Fail("partial_command_processed", "session " + c->root + " processed command #" + U(c->cmdsProcessed) + " although only " + U(delivered) + " bytes of its stream had been delivered");
      }
      const uint32 w = msg()->what;
      if ((w == PR_COMMAND_SETPARAMETERS)||(w == PR_COMMAND_REMOVEPARAMETERS))
      {
         int32 opid; if (msg()->FindInt32(kOpIdField, opid).IsOK()) {Sess(c)->QueueMarker(opid); (void) msg()->RemoveName(kOpIdField);}
      }
      if (orc.mirror) NoteQuietEffects(c, *msg());
      if (orc.isolation) {snapBefore.clear(); SnapshotTree(snapBefore); othersBefore.clear(); SnapshotOthers(connIdx, othersBefore);}
      if ((orc.route)&&((w < (uint32) BEGIN_PR_COMMANDS)||(w > (uint32) END_PR_COMMANDS))) ExpectRouted(c, msg);
   }
   void OnCommandEnd(int connIdx, const MessageRef & msg)
   {
      if (floodNoop) {floodNoop = false; return;}
      Conn * c = C(connIdx); currentCmdConn = -1; if ((c == NULL)||(msg() == NULL)) return;
      if (cmdDepth > 0) cmdDepth--;
      MessageRef asReceived; if (!cmdCopies.empty()) {asReceived = cmdCopies.back(); cmdCopies.pop_back();}
      if ((msg()->what != PR_COMMAND_BATCH)&&(asReceived())&&(!c->hostile)) ApplyToServerModel(c, *asReceived(), 0);   // a BATCH's sub-commands were applied one by one as they were processed
      if (HasAliases(c->serverSubs)) {c->everAliased = true; st.inc("p.aliased_subscriptions");}
      if (HasEmptyClause(c->serverSubs)) {c->everEmptyClause = true; st.inc("p.empty_clause_subscription");}
      if (orc.marks) CheckMarks("after command");
      if (orc.index) CheckIndexWellFormed();
      if (orc.isolation) CheckIsolation(c);
   }

   // A loud write repairs every mirror only if every subscriber of the path is told about it.  A subscriber whose FILTER rejects the new payload hears nothing
   // when the server sees the node as new (or as not matching before either), so a stale entry left behind by an earlier quiet removal/write stays: the path
   // then remains "don't care" (found by seed 2024: setdata a=2 ; sub ? i>1 ; quiet rmdata * ; setdata a=1  -> the subscriber legitimately keeps a=2).
   bool FilteredSubscriptionCovers(const std::string & p) const
   {
      for (auto & cp : conns) if ((cp)&&(cp->up)) {for (auto & sp : cp->clientSubs) if ((!sp.second.filt.IsNone())&&(match::PathMatch(sp.first, p))) return true; for (auto & sp : cp->serverSubs) if ((!sp.second.filt.IsNone())&&(match::PathMatch(sp.first, p))) return true;}
      return false;
   }
   // quiet writes / removals (documented relaxation of C04): the affected paths become "don't care" for mirrors; a loud write clears the mark
   void NoteQuietEffects(Conn * c, const Message & m)
   {
      if (m.what == PR_COMMAND_SETDATA)
      {
         // (a SETDATA names nodes below its sender's own root, and every path below a hostile session's root is "don't care" already -- hostileOwned() in
         //  CheckAtQuiescence() -- so nothing needs recording for it; recording every prefix of its 70000-level paths cost gigabytes and seconds for nothing)
         if (c->hostile) return;
         SetDataNodeFlags flags; (void) m.FindFlat<SetDataNodeFlags>(PR_NAME_FLAGS, flags);
         const bool quiet = flags.IsBitSet(SETDATANODE_FLAG_QUIET);
         for (MessageFieldNameIterator it = m.GetFieldNameIterator(B_MESSAGE_TYPE); it.HasData(); it++)
         {
            const std::string rel = it.GetFieldName()(); if ((rel.empty())||(rel[0] == '/')) continue;
            std::string p = c->root;
            const std::vector<std::string> cl = match::SplitOn(rel, '/');
            for (size_t i=0; i<cl.size(); i++)
            {
               p += "/" + cl[i];
               if (quiet) {dontCare.insert(p); st.inc("p.quiet_write");}
               else if ((i+1 == cl.size())&&(!flags.IsBitSet(SETDATANODE_FLAG_DONTCREATENODE))&&(!flags.IsBitSet(SETDATANODE_FLAG_DONTOVERWRITEDATA))&&(!FilteredSubscriptionCovers(p))) dontCare.erase(p);     // the leaf is (re)written loudly and unconditionally: subscribers get its current value
               // (an intermediate node that a loud command creates is announced; one that exists already is untouched: its mark stays)
            }
         }
      }
      else if ((m.what == PR_COMMAND_REMOVEDATA)&&(m.HasName(PR_NAME_REMOVE_QUIETLY)))
      {
         SimSession * s = AnySess(); if (s == NULL) return;
         std::vector<std::string> keys; const String * ks; for (uint32 i=0; m.FindString(PR_NAME_KEYS, i, &ks).IsOK(); i++) keys.push_back(ks->Cstr());
         std::vector<std::string> roots;
         WalkTree(s->Root(), [&](DataNode &, const std::string & p) {for (auto & k : keys) if (match::RelPathMatch(c->root, k, p)) roots.push_back(p);});   // (filters ignored: over-approximation, errs towards don't-care)
         WalkTree(s->Root(), [&](DataNode &, const std::string & p) {for (auto & r : roots) if ((p == r)||(p.compare(0, r.size()+1, r + "/") == 0)) {dontCare.insert(p); st.inc("p.quiet_removal");}});
      }
   }
   // server-side model of parameters that the oracles need: subscriptions, !Self, default route
   void ApplyToServerModel(Conn * c, const Message & m, int depth)
   {
      if (depth > 100) return;
      if (m.what == PR_COMMAND_BATCH) {MessageRef sub; for (uint32 i=0; m.FindMessage(PR_NAME_KEYS, i, sub).IsOK(); i++) if (sub()) ApplyToServerModel(c, *sub(), depth+1); return;}
      if (m.what == PR_COMMAND_SETPARAMETERS)
      {
         const bool quiet = m.HasName(PR_NAME_SUBSCRIBE_QUIETLY);
         for (MessageFieldNameIterator it(m); it.HasData(); it++)
         {
            const std::string fn = it.GetFieldName()();
            if (fn.compare(0, 10, "SUBSCRIBE:") == 0)
            {
               Sub s; s.quiet = quiet;
               MessageRef fm; if (m.FindMessage(it.GetFieldName(), fm).IsOK()) s.filt = FiltFromArchive(fm);
               c->serverSubs[fn.substr(10)] = s;
            }
            else if (fn == PR_NAME_REFLECT_TO_SELF) c->self = true;
            else if (fn == PR_NAME_KEYS) {c->defaultRoute.clear(); const String * s; for (uint32 i=0; m.FindString(PR_NAME_KEYS, i, &s).IsOK(); i++) c->defaultRoute.push_back(s->Cstr()); c->hasDefaultRoute = true;
                                          if (!m.HasName(PR_NAME_FILTERS)) {/* a stored filter list, if any, stays in force for the new keys (parameters are independent) */}}
            else if (fn == PR_NAME_FILTERS) {c->defaultRouteFilts.clear(); MessageRef fm; for (uint32 i=0; m.FindMessage(PR_NAME_FILTERS, i, fm).IsOK(); i++) c->defaultRouteFilts.push_back(FiltFromArchive(fm));}
         }
      }
      else if (m.what == PR_COMMAND_REMOVEPARAMETERS)
      {
         const String * s;
         for (uint32 i=0; m.FindString(PR_NAME_KEYS, i, &s).IsOK(); i++)
         {
            const std::string key = s->Cstr();
            if (key == "SUBSCRIBE:*") c->serverSubs.clear();
            else if (key.compare(0, 10, "SUBSCRIBE:") == 0) c->serverSubs.erase(Unescape(key.substr(10)));
            else if (key == PR_NAME_REFLECT_TO_SELF) c->self = false;
            else if (key == "\\!SnKy") {c->hasDefaultRoute = false; c->defaultRoute.clear();}
            else if (key == "\\!SnFl") c->defaultRouteFilts.clear();
         }
      }
   }
   static std::string Unescape(const std::string & s) {std::string r; for (size_t i=0; i<s.size(); i++) {if ((s[i] == '\\')&&(i+1 < s.size())) {r += s[++i];} else r += s[i];} return r;}
   // our own subscriptions' filters are produced from Filt::ToArchive(); to recover the Filt we carry its text form in the archive
   static Filt FiltFromArchive(const MessageRef & fm) {if (fm() == NULL) return Filt(); const char * t = fm()->GetCstr("vsim_filt"); return t ? Filt::Parse(t) : Filt();}
   static MessageRef ArchiveWithTag(const Filt & f) {MessageRef m = f.ToArchive(); if (m()) (void) m()->AddString("vsim_filt", f.Str().c_str()); return m;}

   // ------------------------------------------------------------------ what a client does with each Message it receives
   void ClientGot(Conn * c, const MessageRef & m)
   {
      c->msgsReceived++; st.inc("msgs_to_clients");
      if (recordContent) {const std::string f = Flat(m); TraceHash ch; ch.s(f); char hb[32]; snprintf(hb, sizeof(hb), "%016llx", (unsigned long long) ch.h); contentLog.push_back("conn " + I(c->idx) + " " + hb + " " + std::string(m()->ToString()()).substr(0, 400));}
      if (c->hostile) return;
      th.s("rx"); th.u((uint64_t) c->idx); th.u(m()->what);
      switch(m()->what)
      {
         case MARKER_WHAT:
         {
            const int id = m()->GetInt32(kOpIdField, -1);
            auto pi = c->pending.find(id);
            if (pi != c->pending.end())
            {
               const PendingSubOp & op = pi->second;
               if (op.isSub) {Sub s; s.filt = op.filt; s.quiet = op.quiet; c->clientSubs[op.pat] = s; st.inc("p.subscribe_processed"); for (auto & x : op.more) {Sub s2; s2.filt = x.second; s2.quiet = op.quiet; c->clientSubs[x.first] = s2; st.inc("p.subscribe_processed_multi_field");}}
               else
               {
                  if (op.all) c->clientSubs.clear(); else c->clientSubs.erase(op.pat);
                  // the server sends no removal notices on unsubscribe: entries no longer covered (pattern AND filter) are pruned here
                  for (auto mi = c->mirror.begin(); mi != c->mirror.end(); ) {if (CoveredBy(c->clientSubs, mi->first, &mi->second, true)) ++mi; else mi = c->mirror.erase(mi);}
                  for (auto li = c->lists.begin(); li != c->lists.end(); ) {if (CoveredBy(c->clientSubs, li->first, NULL, false)) ++li; else li = c->lists.erase(li);}
                  st.inc("p.unsubscribe_processed");
               }
               c->pending.erase(pi);
            }
         }
         break;
         case PR_RESULT_DATAITEMS:
         {
            st.inc("dataitems_updates");
            const String * r; uint32 nrem = 0;
            for (uint32 k=0; m()->FindString(PR_NAME_REMOVED_DATAITEMS, k, &r).IsOK(); k++) {c->mirror.erase(r->Cstr()); nrem++;}
            uint32 nset = 0;
            for (MessageFieldNameIterator it = m()->GetFieldNameIterator(B_MESSAGE_TYPE); it.HasData(); it++)
            {
               MessageRef v;
               for (uint32 k=0; m()->FindMessage(it.GetFieldName(), k, v).IsOK(); k++)
               {
                  const std::string path = it.GetFieldName()();
                  nset++;
                  if (CoveredBy(c->clientSubs, path, NULL, false)) c->mirror[path] = Flat(v);    // (see DESIGN C04: updates outside current coverage are stale in-flight traffic or GETDATA replies)
                  else st.inc("p.update_outside_coverage");
               }
            }
            if ((nrem > 0)&&(nset > 0)) st.inc("p.update_with_removes_and_sets");
         }
         break;
         case PR_RESULT_INDEXUPDATED:
         {
            st.inc("index_updates");
            for (MessageFieldNameIterator it = m()->GetFieldNameIterator(B_STRING_TYPE); it.HasData(); it++)
            {
               const std::string path = it.GetFieldName()();
               const String * s;
               for (uint32 k=0; m()->FindString(it.GetFieldName(), k, &s).IsOK(); k++)
               {
                  if (!CoveredBy(c->clientSubs, path, NULL, false)) {st.inc("p.index_update_outside_coverage"); continue;}
                  std::vector<std::string> & L = c->lists[path];
                  const std::string op = s->Cstr(); if (op.empty()) continue;
                  if (op[0] == INDEX_OP_CLEARED) {L.clear(); st.inc("p.index_clear"); continue;}
                  const size_t colon = op.find(':'); if (colon == std::string::npos) continue;
                  const uint32 pos = (uint32) atol(op.substr(1, colon-1).c_str()); const std::string name = op.substr(colon+1);
                  if (op[0] == INDEX_OP_ENTRYINSERTED)
                  {
                     if ((orc.index)&&(!skipReplicaCompare)&&(pos > L.size())) Fail("index_insert_out_of_range", "client " + I(c->idx) + " index log for " + path + ": insert '" + op + "' but replica has " + U(L.size()) + " entries");
                     L.insert(L.begin()+std::min((size_t) pos, L.size()), name);
                  }
                  else if (op[0] == INDEX_OP_ENTRYREMOVED)
                  {
                     if ((orc.index)&&(!skipReplicaCompare))
                     {
                        if (pos >= L.size()) Fail("index_remove_out_of_range", "client " + I(c->idx) + " index log for " + path + ": remove '" + op + "' but replica has " + U(L.size()) + " entries");
                        if (L[pos] != name) Fail("index_remove_wrong_name", "client " + I(c->idx) + " index log for " + path + ": remove '" + op + "' but replica holds '" + L[pos] + "' at that position");
                     }
                     if (pos < L.size()) L.erase(L.begin()+pos);
                  }
               }
            }
         }
         break;
         case PR_RESULT_PONG:
         {
            const int tag = m()->GetInt32("tag", -1); c->pongs.push_back(tag);
            if ((c->idx == witnessConn)&&(tag == witnessOutstanding)) {witnessOutstanding = -1; witnessPingSentAtStep = -1; st.inc("witness_pongs");}
         }
         break;
         case PR_RESULT_ERRORACCESSDENIED: st.inc("p.access_denied_bounces"); break;
         case ROUTED_WHAT:
         {
            Conn::RoutedRx rx; rx.seq = m()->GetInt32("seq", -1); rx.fromConn = m()->GetInt32("from", -1); rx.sessionField = m()->GetCstr(PR_NAME_SESSION, "<none>"); rx.fromSid = 0;
            c->routedGot.push_back(rx); st.inc("routed_deliveries");
         }
         break;
         default:
            if ((m()->what >= (uint32) BARE_BASE)&&(m()->what < (uint32) BARE_BASE + (uint32) BARE_SPAN))
            {
               const uint32 v = m()->what - (uint32) BARE_BASE;
               Conn::RoutedRx rx; rx.seq = (int)(v % 100000); rx.fromConn = (int)(v / 100000); rx.sessionField = "<bare>"; rx.fromSid = 0;
               c->routedGot.push_back(rx); st.inc("routed_deliveries"); st.inc("routed_deliveries_bare");
               if (m()->GetNumNames() != 0) st.inc("p.bare_routed_message_arrived_with_fields");
            }
         break;
      }
   }
   // does some subscription in (subs) cover (path)?  With (payload) given and (useFilter), the subscription's filter must accept it too.
   static bool CoveredBy(const std::map<std::string, Sub> & subs, const std::string & path, const std::string * payloadBytes, bool useFilter)
   {
      MessageRef pm;
      for (auto & s : subs)
      {
         if (!match::PathMatch(s.first, path)) continue;
         if ((!useFilter)||(s.second.filt.IsNone())) return true;
         if (payloadBytes) {if (pm() == NULL) {pm = GetMessageFromPool(); if (pm()->UnflattenFromBytes((const uint8 *) payloadBytes->data(), (uint32) payloadBytes->size()).IsError()) pm()->Clear();} if (s.second.filt.EvalMsg(pm())) return true;}
      }
      return false;
   }

   // ------------------------------------------------------------------ reading the real tree (in-process, public accessors only)
   static std::string PayloadBytes(const DataNode & n) {ConstMessageRef d = n.GetData(); return d() ? Flat(*d()) : std::string("<none>");}
   void WalkTree(DataNode & n, const std::function<void(DataNode &, const std::string &)> & f)
   {
      if (n.GetDepth() >= 1) {String p; (void) n.GetNodePath(p); f(n, p());}
      for (DataNodeRefIterator it = n.GetChildIterator(); it.HasData(); it++) if (it.GetValue()()) WalkTree(*it.GetValue()(), f);
   }
   void SnapshotTree(std::map<std::string, std::string> & out)
   {
      SimSession * s = AnySess(); if (s == NULL) return;
      WalkTree(s->Root(), [&](DataNode & n, const std::string & p) {
         std::string v = PayloadBytes(n); v += "|idx:";
         const Queue<DataNodeRef> * ix = n.GetIndex(); if (ix) for (uint32 i=0; i<ix->GetNumItems(); i++) {v += (*ix)[i]() ? (*ix)[i]()->GetNodeName()() : "?"; v += ",";}
         v += "|kids:"; for (DataNodeRefIterator it = n.GetChildIterator(); it.HasData(); it++) {v += it.GetKey()->Cstr(); v += ",";}
         out[p] = v; });
   }
   // other sessions' observable state: subscriber marks they hold on every node, their model parameters, their liveness
   void SnapshotOthers(int exceptConn, std::map<std::string, std::string> & out)
   {
      SimSession * s = AnySess(); if (s == NULL) return;
      Conn * me = C(exceptConn);
      WalkTree(s->Root(), [&](DataNode & n, const std::string & p) {
         for (ConstHashtableIterator<uint32, uint32> it(n.GetSubscribers()); it.HasData(); it++) if ((me == NULL)||(it.GetKey() != me->sid)) out["mark " + p + " " + U(it.GetKey())] = U(it.GetValue()); });
      for (auto & cp : conns) if ((cp)&&(cp->idx != exceptConn)&&(cp->up)) out["attached " + cp->root] = (cp->session()->IsAttachedToServer() && !cp->session()->IsExpendable()) ? "1" : "1";
   }

   // ------------------------------------------------------------------ oracles
   void CheckMarks(const char * when)
   {
      SimSession * s = AnySess(); if (s == NULL) return;
      st.inc("marks_checks");
      WalkTree(s->Root(), [&](DataNode & n, const std::string & p) {
         std::map<uint32, uint32> exp, got;
         for (auto & cp : conns) if ((cp)&&(cp->up)&&(!cp->hostile)) {uint32 cnt = 0; for (auto & sp : cp->serverSubs) if (match::PathMatch(sp.first, p)) cnt++; if (cnt) exp[cp->sid] = cnt;}
         for (ConstHashtableIterator<uint32, uint32> it(n.GetSubscribers()); it.HasData(); it++) {bool hostileSid = false; for (auto & cp : conns) if ((cp)&&(cp->hostile)&&(cp->up)&&(cp->sid == it.GetKey())) hostileSid = true; if (!hostileSid) got[it.GetKey()] = it.GetValue();}   // a hostile session's own subscriptions are not modelled
         // Judged is WHO is marked on the node (that decides who is told about it), not the library's per-session reference counts: those are an implementation
         // detail (a count that drifts shows up as a wrong presence as soon as one of the overlapping subscriptions goes away).  Counts are only printed.
         bool differ = (exp.size() != got.size()); if (!differ) for (auto & e : exp) if (got.find(e.first) == got.end()) differ = true;
         if ((!differ)&&(exp != got)) st.inc("p.mark_reference_count_differs_from_subscription_count");
         if (differ)
         {
            std::string d = std::string(when) + ": subscriber marks of node " + p + " are {"; for (auto & e : got) d += U(e.first) + ":" + U(e.second) + " ";
            d += "} but the sessions' current subscriptions imply {"; for (auto & e : exp) d += U(e.first) + ":" + U(e.second) + " "; d += "}; last command: " + lastCmdDesc;
            for (auto & e : got) {bool live = false; for (auto & cp : conns) if ((cp)&&(cp->up)&&(cp->sid == e.first)) live = true; if (!live) Fail("marks_of_departed_session", d);}
            // narrow trigger descriptor for finding F14: a session whose marks differ holds two parameter names that normalise to one path
            auto has = [](const std::map<uint32, uint32> & m, uint32 k) {return m.find(k) != m.end();};
            for (auto & cp : conns) if ((cp)&&(cp->up)&&(has(exp, cp->sid) != has(got, cp->sid))&&(cp->everEmptyClause)) Fail("marks_mismatch_empty_clause_subscription", d + "; session " + U(cp->sid) + " has subscribed to a path with an empty clause");
            for (auto & cp : conns) if ((cp)&&(cp->up)&&(has(exp, cp->sid) != has(got, cp->sid))&&((cp->everAliased)||(HasAliases(cp->serverSubs)))) Fail("marks_mismatch_aliased_subscriptions", d + "; session " + U(cp->sid) + " holds (or held) two spellings of one subscription path");
            Fail("marks_mismatch", d);
         } });
   }
   static bool HasEmptyClause(const std::map<std::string, Sub> & subs) {for (auto & sp : subs) {const std::string n = match::Normalise(sp.first); if ((n.empty())||(n[n.size()-1] == '/')||(n.find("//") != std::string::npos)) return true;} return false;}
   static bool HasAliases(const std::map<std::string, Sub> & subs) {std::set<std::string> norm; for (auto & sp : subs) if (!norm.insert(match::Normalise(sp.first)).second) return true; return false;}
   void CheckIndexWellFormed()
   {
      SimSession * s = AnySess(); if (s == NULL) return;
      WalkTree(s->Root(), [&](DataNode & n, const std::string & p) {
         const Queue<DataNodeRef> * ix = n.GetIndex(); if (ix == NULL) return;
         std::set<std::string> seen;
         for (uint32 i=0; i<ix->GetNumItems(); i++)
         {
            const DataNode * ch = (*ix)[i](); if (ch == NULL) Fail("index_null_entry", "index of " + p + " holds a NULL entry");
            const std::string nm = ch->GetNodeName()();
            if (!seen.insert(nm).second) Fail("index_duplicate_entry", "index of " + p + " lists child '" + nm + "' twice");
            DataNodeRef real; if ((n.GetChild(ch->GetNodeName(), real).IsError())||(real() != ch)) Fail("index_lists_nonchild", "index of " + p + " lists '" + nm + "' which is not (or no longer) a child of that node");
         } });
   }
   void CheckIsolation(Conn * c)
   {
      std::map<std::string, std::string> after; SnapshotTree(after);
      st.inc("isolation_checks");
      auto inside = [&](const std::string & p) {return (p == c->root)||(p.compare(0, c->root.size()+1, c->root + "/") == 0);};
      for (auto & kv : snapBefore)
      {
         auto it = after.find(kv.first);
         if (inside(kv.first)) continue;
         if (it == after.end()) Fail("foreign_node_removed", "a command of session " + c->root + " (" + lastCmdDesc + ") removed node " + kv.first);
         // a session node's "kids" may not change either; but the host node of c legitimately is c's parent: its child list does not change by c's commands
         if (it->second != kv.second) Fail("foreign_node_changed", "a command of session " + c->root + " (" + lastCmdDesc + ") changed node " + kv.first + " (payload, index or child list)");
      }
      for (auto & kv : after) if ((!inside(kv.first))&&(snapBefore.find(kv.first) == snapBefore.end())) Fail("foreign_node_created", "a command of session " + c->root + " (" + lastCmdDesc + ") created node " + kv.first);
      std::map<std::string, std::string> othersAfter; SnapshotOthers(c->idx, othersAfter);
      // marks held by OTHER sessions may legitimately appear/disappear on nodes that c created/removed inside its own subtree; everything else must be unchanged
      for (auto & kv : othersBefore)
      {
         auto it = othersAfter.find(kv.first);
         const bool isMark = (kv.first.compare(0, 5, "mark ") == 0);
         std::string path; if (isMark) {path = kv.first.substr(5); path = path.substr(0, path.rfind(' '));}
         if ((isMark)&&(inside(path))) continue;
         if ((it == othersAfter.end())||(it->second != kv.second)) Fail("foreign_session_state_changed", "a command of session " + c->root + " (" + lastCmdDesc + ") changed another session's state: " + kv.first);
      }
      for (auto & kv : othersAfter)
      {
         if (othersBefore.find(kv.first) != othersBefore.end()) continue;
         const bool isMark = (kv.first.compare(0, 5, "mark ") == 0);
         std::string path; if (isMark) {path = kv.first.substr(5); path = path.substr(0, path.rfind(' '));}
         if ((isMark)&&(inside(path))) continue;
         Fail("foreign_session_state_changed", "a command of session " + c->root + " (" + lastCmdDesc + ") added to another session's state: " + kv.first);
      }
   }
   void CheckDepartureCleanup(Conn * c)
   {
      // evaluated right after the server step in which c's session was detached
      SimSession * s = AnySess();
      st.inc("departure_checks");
      if (c->departedHow == "cut") st.inc("p.departure_after_cut"); else if (c->departedHow == "reset") st.inc("p.departure_after_reset"); else st.inc("p.departure_after_close");
      if (s == NULL) return;
      bool hostHasOther = false; for (auto & cp : conns) if ((cp)&&(cp->up)&&(cp->host == c->host)) hostHasOther = true;
      WalkTree(s->Root(), [&](DataNode & n, const std::string & p) {
         if ((p == c->root)||(p.compare(0, c->root.size()+1, c->root + "/") == 0)) Fail("departed_subtree_remains", "session " + c->root + " has left (" + c->departedHow + ") but node " + p + " is still in the tree");
         if ((!hostHasOther)&&(p == "/" + c->host)) Fail("empty_host_node_remains", "host node /" + c->host + " remains although its last session has left");
         for (ConstHashtableIterator<uint32, uint32> it(n.GetSubscribers()); it.HasData(); it++) if (it.GetKey() == c->sid) Fail("marks_of_departed_session", "node " + p + " still carries a subscriber mark of departed session " + c->root); });
      // (the sessions' private node counters have no public accessor; their drift would surface through the max-nodes limit only)
   }
   uint32 CountNodesUnder(const std::string & root)
   {
      SimSession * s = AnySess(); if (s == NULL) return 0; uint32 n = 0;
      WalkTree(s->Root(), [&](DataNode &, const std::string & p) {if (p.compare(0, root.size()+1, root + "/") == 0) n++;});
      return n;
   }

   // C05: expectation fixed at the instant the server processes the routed Message
   void ExpectRouted(Conn * c, const MessageRef & msg)
   {
      const bool bare = (msg()->what >= (uint32) BARE_BASE)&&(msg()->what < (uint32) BARE_BASE + (uint32) BARE_SPAN);
      if ((msg()->what != (uint32) ROUTED_WHAT)&&(!bare)) return;
      RoutedExpect ex; ex.fromConn = c->idx; ex.fromSid = c->sid; ex.seq = bare ? (int)((msg()->what - (uint32) BARE_BASE) % 100000) : msg()->GetInt32("seq", -1);
      if ((bare)&&((int)((msg()->what - (uint32) BARE_BASE) / 100000) != c->idx)) return;   // (a hand-edited plan)
      std::vector<std::string> keys; const String * s;
      for (uint32 i=0; msg()->FindString(PR_NAME_KEYS, i, &s).IsOK(); i++) keys.push_back(s->Cstr());
      const bool hasKeys = msg()->HasName(PR_NAME_KEYS, B_STRING_TYPE);
      std::vector<Filt> filts; {MessageRef fm; for (uint32 i=0; msg()->FindMessage(PR_NAME_FILTERS, i, fm).IsOK(); i++) filts.push_back(FiltFromArchive(fm));}
      if (!msg()->HasName(PR_NAME_KEYS, B_STRING_TYPE)) filts = c->defaultRouteFilts;   // the default route brings its own stored filters
      const std::vector<std::string> * use = hasKeys ? &keys : (c->hasDefaultRoute ? &c->defaultRoute : NULL);
      std::string kd; if (use) for (auto & k : *use) kd += k + " "; else kd = "<broadcast>";
      ex.keysDesc = kd;
      SimSession * ss = AnySess();
      if (use == NULL) {for (auto & cp : conns) if ((cp)&&(cp->up)&&((cp->idx != c->idx)||(c->self))) ex.expectSids.insert(cp->sid); st.inc("p.route_broadcast");}
      else if (ss)
      {
         if (!hasKeys) st.inc("p.route_default");
         // (a) the library's own per-path matcher applied to every node: the property's "traversal == brute force" reference
         // (b) the independent matcher, when every key is in the conservative subset
         bool conservative = true; for (auto & k : *use) if (!IsConservative(k)) conservative = false;
         // the same key string twice in one Message (with different filters) collapses to one matcher entry in the server: not a well-formed request, no independent verdict
         {std::set<std::string> seen; for (auto & k : *use) if (!seen.insert(match::Normalise(k)).second) {conservative = false; st.inc("p.route_duplicate_keys");}}
         std::set<uint32> byLib, byInd;
         PathMatcher pm; for (size_t i=0; i<use->size(); i++) {ConstQueryFilterRef qf; qf = FiltFor(filts, i).ToMuscle(); (void) pm.PutPathFromString((*use)[i].c_str(), qf, "*/*");}   // same prefix rule as the server (relative keys get the implicit */*/ prefix)
         WalkTree(ss->Root(), [&](DataNode & n, const std::string & p) {
            int ownerIdx = -1; uint32 owner = 0; for (auto & cp : conns) if ((cp)&&(cp->up)&&((p == cp->root)||(p.compare(0, cp->root.size()+1, cp->root + "/") == 0))) {ownerIdx = cp->idx; owner = cp->sid;}
            if (ownerIdx < 0) return;
            if ((ownerIdx == c->idx)&&(!c->self)) return;
            ConstMessageRef data = n.GetData();
            if (pm.MatchesPath(p.c_str(), data(), &n)) byLib.insert(owner);
            if (conservative) for (size_t i=0; i<use->size(); i++) if (match::PathMatch((*use)[i], p)) {const bool fok = FiltFor(filts, i).EvalMsg(data(), n.GetNumChildren(), std::string(n.GetNodeName()())); if (fok) byInd.insert(owner);} });
         if ((conservative)&&(byLib != byInd))
         {
            std::string d = "keys [" + kd + "]: muscle's per-path matcher selects sessions {"; for (uint32 x : byLib) d += U(x) + " "; d += "} but the independent matcher selects {"; for (uint32 x : byInd) d += U(x) + " "; d += "}";
            Fail("matcher_disagreement", d);
         }
         ex.expectSids = byLib;
         if (conservative) st.inc("p.route_conservative_keys"); else st.inc("p.route_full_syntax_keys");
      }
      routed.push_back(ex); st.inc("routed_processed");
      if (ex.expectSids.size() >= 2) st.inc("p.route_multi_recipient");
      if (ex.expectSids.count(c->sid)) st.inc("p.route_to_self");
   }
   // is the key inside the subset the independent matcher implements?  (alternation only as a whole clause, not nested)
   // the filter in force for key #i: its own, or -- documented "bleed-down" of PutPathsFromMessage -- the last one specified before it
   static Filt FiltFor(const std::vector<Filt> & filts, size_t i) {if (i < filts.size()) return filts[i]; return filts.empty() ? Filt() : filts.back();}
   static bool IsConservative(const std::string & k)
   {
      for (char ch : k) if (!(isalnum((unsigned char) ch)||(strchr("*?[]-(|),/", ch)))) return false;
      for (auto & cl : match::SplitOn(k, '/'))
      {
         size_t opens = 0; for (char ch : cl) if ((ch == '(')||(ch == ')')) opens++;
         if ((opens > 0)&&((opens != 2)||(cl[0] != '(')||(cl[cl.size()-1] != ')'))) return false;
         if ((cl.find('|') != std::string::npos)&&(opens == 0)) return false;
         if ((cl.find('[') != std::string::npos)&&(cl.find(',') != std::string::npos)) return false;
      }
      return true;
   }

   // ------------------------------------------------------------------ quiescence
   bool AnyTrafficPending()
   {
      for (auto & cp : conns) if (cp)
      {
         Conn * c = cp.get();
         if ((c->up)&&((c->c2s.q.size() > 0)||(c->c2s.closed))) return true;
         if ((c->up)&&(c->s2c.q.size() > 0)) return true;   // bytes written towards a departed client are never read
         if ((c->up)&&(c->session())&&(c->session()->IsAttachedToServer())&&(Sess(c)->GetGateway()())&&(Sess(c)->GetGateway()()->HasBytesToOutput())) return true;
         if ((c->up)&&(c->gw.get())&&(c->gw->HasBytesToOutput())&&(!c->c2s.closed)) return true;
      }
      return false;
   }
   // A slow link: for (rounds) server iterations connection ci accepts only (chunk) bytes in every other write call (the calls in between would block) while the clock moves on by a
   // third of the stall limit per iteration -- the backlog lasts for several stall limits, yet its bytes never stop moving for as long as one.  Everyone else is served at full
   // speed.  Followed by an ordinary quiescent point.  (Only in runs that have a stall limit.)
   void SlowQuiesce(int ci, uint32_t chunk, int rounds)
   {
      Conn * c = UpC(ci);
      if ((c)&&(stallUs >= 3)&&(c->c2s.floodUnit == NULL))
      {
         struct Saved {bool noread, stalled; uint64_t cap; std::vector<uint32_t> r, w;}; std::vector<Saved> saved;
         for (auto & cp : conns)
         {
            Saved s; s.noread = s.stalled = false; s.cap = (uint64_t)-1;
            if (cp) {s.noread = cp->noread; s.stalled = cp->stalled; s.cap = cp->s2c.capacity; s.r = cp->c2s.rsched; s.w = cp->s2c.wsched; cp->noread = cp->stalled = false; cp->s2c.capacity = (uint64_t)-1; cp->c2s.rsched.clear(); cp->s2c.wsched.clear();}
            saved.push_back(s);
         }
         std::vector<uint32_t> slow; slow.push_back(std::max<uint32_t>(1, std::min<uint32_t>(chunk, 4096))); slow.push_back(0);
         c->s2c.SetSched(true, slow);
         uint64_t moved = c->s2c.totalWritten; int movingRounds = 0;
         for (int r=0; (r<rounds)&&(r<200)&&(c->up); r++)
         {
            ServerStep();
            for (auto & cp : conns) if ((cp)&&(cp->gw.get())) {if ((cp->up)&&(cp->gw->HasBytesToOutput())) (void) cp->gw->DoOutput(); ClientRead(cp.get());}
            if (c->s2c.totalWritten > moved) {moved = c->s2c.totalWritten; movingRounds++;}
            g_simNowUs += stallUs/3;
         }
         if (movingRounds >= 6) st.inc("p.backlog_outlasted_stall_limit_while_moving");
         st.inc("f.slow_link_rounds", (uint64_t) movingRounds);
         for (size_t i=0; (i<conns.size())&&(i<saved.size()); i++) if (conns[i]) {conns[i]->noread = saved[i].noread; conns[i]->stalled = saved[i].stalled; conns[i]->s2c.capacity = saved[i].cap; conns[i]->c2s.rsched = saved[i].r; conns[i]->s2c.wsched = saved[i].w;}
      }
      Quiesce("slow quiesce op");
   }
   // faults suspended; step until no actor has work; bounded
   void Quiesce(const char * why)
   {
      inQuiesce = true;
      for (auto & cp : conns) if ((cp)&&(cp->c2s.floodUnit)) {cp->c2s.floodUnit = NULL; st.inc("p.flood_ended_by_quiescent_point");}   // a flooding client is never quiescent: the flood (a fault) ends here like every other fault
      struct Saved {bool noread, stalled; uint64_t cap; std::vector<uint32_t> r, w;}; std::vector<Saved> saved;
      for (auto & cp : conns)
      {
         Saved s; s.noread = s.stalled = false; s.cap = (uint64_t)-1;
         if (cp) {s.noread = cp->noread; s.stalled = cp->stalled; s.cap = cp->s2c.capacity; s.r = cp->c2s.rsched; s.w = cp->s2c.wsched; cp->noread = cp->stalled = false; cp->s2c.capacity = (uint64_t)-1; cp->c2s.rsched.clear(); cp->s2c.wsched.clear();}
         saved.push_back(s);
      }
      uint64_t pendingBytes = 0; for (auto & cp : conns) if (cp) pendingBytes += cp->c2s.q.size() + cp->s2c.q.size();
      const int budget = 400 + (int)(pendingBytes/16);
      int idle = 0, rounds = 0;
      while((idle < 3)&&(rounds < budget))
      {
         rounds++;
         ServerStep();
         for (auto & cp : conns) if ((cp)&&(cp->gw.get())) {if ((cp->up)&&(cp->gw->HasBytesToOutput())) (void) cp->gw->DoOutput(); ClientRead(cp.get());}
         if (AnyTrafficPending()) idle = 0; else idle++;
      }
      if (idle < 3)
      {
         std::string d;
         for (auto & cp : conns) if (cp) {Conn * c = cp.get(); d += " [conn " + I(c->idx) + (c->up ? " up" : " down") + " c2s=" + U(c->c2s.q.size()) + (c->c2s.closed ? "(closed)" : "") + " s2c=" + U(c->s2c.q.size()) + (c->s2c.broken ? "(broken)" : "")
               + " srvout=" + (((c->up)&&(c->session())&&(c->session()->IsAttachedToServer())&&(Sess(c)->GetGateway()())) ? U(Sess(c)->GetGateway()()->HasBytesToOutput()) : std::string("-")) + " cliout=" + ((c->gw.get()) ? U(c->gw->HasBytesToOutput()) : std::string("-")) + "]";}
         Fail("no_quiescence", std::string(why) + ": traffic still pending after " + I(budget) + " fault-free rounds (bounded liveness):" + d);
      }
      for (size_t i=0; (i<conns.size())&&(i<saved.size()); i++) if (conns[i]) {conns[i]->noread = saved[i].noread; conns[i]->stalled = saved[i].stalled; conns[i]->s2c.capacity = saved[i].cap; conns[i]->c2s.rsched = saved[i].r; conns[i]->s2c.wsched = saved[i].w;}
      inQuiesce = false;
      st.inc("quiescent_points");
      CheckAtQuiescence();
   }
   void CheckAtQuiescence()
   {
      SimSession * s = AnySess();
      std::map<std::string, std::string> truth; std::map<std::string, std::vector<std::string> > realIdx; std::map<std::string, const Message *> payloads;
      std::vector<ConstMessageRef> keep;
      if (s) WalkTree(s->Root(), [&](DataNode & n, const std::string & p) {
         truth[p] = PayloadBytes(n); ConstMessageRef d = n.GetData(); keep.push_back(d); payloads[p] = d();
         const Queue<DataNodeRef> * ix = n.GetIndex(); if ((ix)&&(ix->HasItems())) {std::vector<std::string> & v = realIdx[p]; for (uint32 i=0; i<ix->GetNumItems(); i++) v.push_back((*ix)[i]()->GetNodeName()());} });
      for (auto & cp : conns)
      {
         Conn * c = cp.get(); if ((c == NULL)||(!c->up)) continue;
         if (c->pending.size() > 0) continue;   // an (un)subscribe of this client was cut off or is otherwise unresolved: its coverage is undefined
         if (c->hostile) continue;               // the hostile client's own view is not modelled
         auto hostileOwned = [&](const std::string & p) {for (auto & hp : conns) if ((hp)&&(hp->hostile)&&((p == hp->root)||(p.compare(0, hp->root.size()+1, hp->root + "/") == 0))) return true; return false;};
         if (orc.mirror)
         {
            // expected mirror: nodes of OTHER sessions (own too under !Self) that some current subscription matches (pattern by the independent matcher, filter by the independent evaluator)
            std::map<std::string, std::string> exp;
            for (auto & t : truth)
            {
               const bool own = (t.first == c->root)||(t.first.compare(0, c->root.size()+1, c->root + "/") == 0);
               if ((own)&&(!c->self)) continue;
               if (hostileOwned(t.first)) continue;   // a hostile owner may write and remove quietly: its nodes are "don't care" for mirrors
               if (dontCare.count(t.first)) continue;
               bool m = false; for (auto & sp : c->clientSubs) if ((match::PathMatch(sp.first, t.first))&&(sp.second.filt.EvalMsg(payloads[t.first]))) m = true;
               if (m) exp[t.first] = t.second;
            }
            std::map<std::string, std::string> got;
            for (auto & t : c->mirror) {const bool own = (t.first == c->root)||(t.first.compare(0, c->root.size()+1, c->root + "/") == 0); if ((own)&&(!c->self)) continue; if (hostileOwned(t.first)) continue; if (dontCare.count(t.first)) continue; got[t.first] = t.second;}
            // deliberate, narrow relaxation: entries a quiet subscription was never told about are not required (completeness only for nodes written after it)
            if (exp != got)
            {
               std::string d = "client " + I(c->idx) + " (" + c->root + (c->self ? ", reflect-to-self" : "") + ") mirror differs from the server's tree:";
               std::string cls;
               for (auto & t : exp) {if (!got.count(t.first)) {if (QuietOnly(c, t.first, payloads[t.first])) continue; d += " MISSING " + t.first; if (cls.empty()) cls = "mirror_missing";} else if (got[t.first] != t.second) {d += " STALE " + t.first; if (cls.empty()) cls = "mirror_stale";}}
               for (auto & t : got) if (!exp.count(t.first)) {d += " EXTRA " + t.first; if (cls.empty()) cls = "mirror_extra";}
               if (!cls.empty()) {d += "; subscriptions:"; for (auto & sp : c->clientSubs) d += " [" + sp.first + " " + sp.second.filt.Str() + "]"; if (c->everEmptyClause) cls += "_empty_clause_subscription"; else if (c->everAliased) cls += "_aliased_subscriptions"; Fail(cls, d);}
            }
            st.inc("mirror_checks"); st.inc("mirror_entries_checked", exp.size());
            if (exp.size() > 0) st.inc("p.nonempty_mirror_checked");
         }
         if ((orc.index)&&(!skipReplicaCompare))
         {
            for (auto & t : truth)
            {
               if (!CoveredBy(c->clientSubs, t.first, NULL, false)) continue;
               static const std::vector<std::string> none;
               auto ri = realIdx.find(t.first); const std::vector<std::string> & real = (ri == realIdx.end()) ? none : ri->second;
               auto li = c->lists.find(t.first); const std::vector<std::string> & mine = (li == c->lists.end()) ? none : li->second;
               if (real != mine)
               {
                  std::string d = "client " + I(c->idx) + " replica of the ordered index of " + t.first + " is ["; for (auto & x : mine) d += x + ","; d += "] but the server's index is ["; for (auto & x : real) d += x + ","; d += "]";
                  Fail("index_replica_differs", d);
               }
               if (real.size() > 0) {st.inc("index_replicas_checked"); if (real.size() >= 3) st.inc("p.index_len_ge3_checked");}
            }
         }
      }
      if (orc.route) CheckRoutedAtQuiescence();
   }
   bool QuietOnly(Conn * c, const std::string & path, const Message * payload)   // every subscription of c that selects this node (pattern and filter) is a quiet one
   {
      bool any = false; for (auto & sp : c->clientSubs) if ((match::PathMatch(sp.first, path))&&(sp.second.filt.EvalMsg(payload))) {if (!sp.second.quiet) return false; any = true;}
      return any;
   }
   size_t routedChecked = 0;
   void AllConns(std::vector<Conn *> & out) {for (auto & cp : conns) if (cp) out.push_back(cp.get()); for (auto & r : retired) if (r) out.push_back(r.get());}
   void CheckRoutedAtQuiescence()
   {
      // every routed Message processed so far: delivered exactly once to each expected recipient session that is still connected, to nobody else
      std::vector<Conn *> all; AllConns(all);
      std::map<uint32, std::map<std::pair<uint32,int>, int> > got;   // receiver sid -> (sender conn, seq) -> copies
      for (Conn * c : all) for (auto & rx : c->routedGot) got[c->sid][std::make_pair((uint32) rx.fromConn, rx.seq)]++;
      for (size_t i=routedChecked; i<routed.size(); i++)
      {
         const RoutedExpect & ex = routed[i];
         for (Conn * c : all)
         {
            if (!c->everUp) continue;
            const int copies = got[c->sid][std::make_pair((uint32) ex.fromConn, ex.seq)];
            const bool expected = ex.expectSids.count(c->sid) > 0;
            const std::string what = "routed Message (from conn " + I(ex.fromConn) + " session " + U(ex.fromSid) + " seq " + I(ex.seq) + ", keys [" + ex.keysDesc + "])";
            if ((expected)&&(copies > 1)) Fail("routed_duplicated", what + " reached expected recipient session " + U(c->sid) + " (conn " + I(c->idx) + ") " + I(copies) + " times");
            if ((expected)&&(c->up)&&(copies == 0)) Fail("routed_not_delivered", what + " never reached expected recipient session " + U(c->sid) + " (conn " + I(c->idx) + ")");
            if ((!expected)&&(copies > 0)) Fail("routed_to_wrong_session", what + " reached session " + U(c->sid) + " (conn " + I(c->idx) + ") which was not selected (owns no matching node / is the sender without reflect-to-self)");
         }
      }
      routedChecked = routed.size();
      // order per (sender, receiver) and true sender identity
      for (Conn * c : all)
      {
         std::map<int, int> lastSeq;
         for (auto & rx : c->routedGot)
         {
            auto it = lastSeq.find(rx.fromConn);
            if ((it != lastSeq.end())&&(rx.seq < it->second)) Fail("routed_out_of_order", "session " + U(c->sid) + " received seq " + I(rx.seq) + " after seq " + I(it->second) + " from conn " + I(rx.fromConn));
            lastSeq[rx.fromConn] = rx.seq;
            // the sender was whichever incarnation of that connection slot processed this seq
            if (rx.sessionField == "<bare>") continue;   // (a Message without a sender-identity field gets none)
            bool sidOk = false; for (auto & ex : routed) if ((ex.fromConn == rx.fromConn)&&(ex.seq == rx.seq)&&(rx.sessionField == U(ex.fromSid))) sidOk = true;
            if (!sidOk) Fail("routed_wrong_sender_identity", "session " + U(c->sid) + " received routed seq " + I(rx.seq) + " from conn " + I(rx.fromConn) + " whose sender-identity field says '" + rx.sessionField + "'");
         }
      }
   }
};
ServerSim * ServerSim::s_cur = NULL;

inline DataIORef SimSession::CreateDataIO(const ConstSocketRef & s) {if (_connIdx < 0) return DataIORef(new SimDataIO(&_ghIn, &_ghOut, s)); Conn * c = _sim->C(_connIdx); SimDataIO * io = new SimDataIO(&c->c2s, &c->s2c, s); if (_sim->stallUs) io->_stallLimit = _sim->stallUs; return DataIORef(io);}
inline String SimSession::GenerateHostName(const IPAddress &, const String &) const {Conn * c = _sim->C(_connIdx); return String(c ? c->host.c_str() : "gh");}
inline void SimSession::MessageReceivedFromGateway(const MessageRef & msg, void * ud)
{
   _sim->OnCommandBegin(_connIdx, msg);
   StorageReflectSession::MessageReceivedFromGateway(msg, ud);
   _sim->OnCommandEnd(_connIdx, msg);
}

}} // namespace vs::srv
