// sim/netsim/server_ops.h -- plan vocabulary of the netsim/server engine: op interpreter and command recipes (text -> Message)
#pragma once
#include "server.h"

namespace vs { namespace srv {

// "pat^filt" -> (pat, Filt)
inline void SplitPatFilt(const std::string & tok, std::string & pat, Filt & f)
{
   const size_t h = tok.find('^');
   if (h == std::string::npos) {pat = Unesc(tok); f = Filt();} else {pat = Unesc(tok.substr(0, h)); f = Filt::Parse(tok.substr(h+1));}
}
inline MessageRef Payload(uint32 what, const std::string & v, uint32 pad = 0)
{
   MessageRef p = GetMessageFromPool(what);
   if ((!v.empty())&&(v != "-")) (void) p()->AddInt32("v", (int32) atoi(v.c_str()));
   if (pad) {String s; for (uint32 i=0; i<pad; i++) s += (char)('a' + (i%26)); (void) p()->AddString("pad", s);}
   // a two-valued string field derived from the what-code, for filters that look at a value other than the first one ("t" = ["x<what%3>", "y<what%2>"]); every third payload has only one value
   {char b[16]; snprintf(b, sizeof(b), "x%u", what % 3); (void) p()->AddString("t", b); if ((what % 3) != 2) {snprintf(b, sizeof(b), "y%u", what % 2); (void) p()->AddString("t", b);}}
   return p;
}

// hostile Messages for C07 (sim/props/c07.h); declared here so the interpreter can build them
MessageRef HostileMessage(uint64_t gseed, int tmpl);

struct Interp
{
   ServerSim sim;
   const Plan & plan;
   explicit Interp(const Plan & p, RunResult & r) : sim(r), plan(p) {}

   // builds the command Message for the tokens t[from..]
   MessageRef Build(Conn * c, const std::vector<std::string> & t, size_t from)
   {
      if (from >= t.size()) return MessageRef();
      const std::string & k = t[from];
      auto A = [&](size_t i) -> std::string {return (from+i < t.size()) ? t[from+i] : std::string();};
      const size_t n = t.size() - from;
      if (k == "setdata")
      {
         MessageRef m = GetMessageFromPool(PR_COMMAND_SETDATA);
         const std::string fl = A(1); SetDataNodeFlags flags;
         for (char ch : fl) switch(ch) {case 's': flags.SetBit(SETDATANODE_FLAG_ENABLESUPERCEDE); break; case 'i': flags.SetBit(SETDATANODE_FLAG_ADDTOINDEX); break; case 'n': flags.SetBit(SETDATANODE_FLAG_DONTCREATENODE); break;
                                    case 'o': flags.SetBit(SETDATANODE_FLAG_DONTOVERWRITEDATA); break; case 'q': flags.SetBit(SETDATANODE_FLAG_QUIET); break; default: break;}
         if (flags.AreAnyBitsSet()) (void) m()->AddFlat(PR_NAME_FLAGS, flags);
         for (size_t i=2; i<n; i++)
         {
            const std::string a = A(i); const size_t eq = a.find('='); if (eq == std::string::npos) continue;
            const std::string path = Unesc(a.substr(0, eq)); const std::vector<std::string> wv = match::SplitOn(a.substr(eq+1), ':');
            (void) m()->AddMessage(path.c_str(), Payload((uint32) ToU(wv[0]), (wv.size() > 1) ? wv[1] : "-", (wv.size() > 2) ? (uint32) ToU(wv[2]) : 0));
         }
         return m;
      }
      if ((k == "rmdata")||(k == "getdata"))
      {
         MessageRef m = GetMessageFromPool((k == "rmdata") ? PR_COMMAND_REMOVEDATA : PR_COMMAND_GETDATA);
         size_t i = 1;
         if (k == "rmdata") {if (A(1) == "1") (void) m()->AddBool(PR_NAME_REMOVE_QUIETLY, true); i = 2;}
         bool anyFilt = false; std::vector<std::pair<std::string, Filt> > pf;
         for (; i<n; i++) {std::string pat; Filt f; SplitPatFilt(A(i), pat, f); pf.push_back(std::make_pair(pat, f)); if (!f.IsNone()) anyFilt = true;}
         for (auto & x : pf) (void) m()->AddString(PR_NAME_KEYS, x.first.c_str());
         if (anyFilt) for (auto & x : pf) {MessageRef fm = ServerSim::ArchiveWithTag(x.second); (void) m()->AddMessage(PR_NAME_FILTERS, fm() ? fm : GetMessageFromPool(0));}
         return m;
      }
      if ((k == "sub")&&(n >= 5))
      {
         MessageRef m = GetMessageFromPool(PR_COMMAND_SETPARAMETERS);
         const int opid = (int) ToI(A(1)); const bool quiet = (A(2) == "1"); const std::string pat = Unesc(A(3)); const Filt f = Filt::Parse(A(4));
         const std::string fn = "SUBSCRIBE:" + pat;
         if (f.IsNone()) (void) m()->AddBool(fn.c_str(), true); else (void) m()->AddMessage(fn.c_str(), ServerSim::ArchiveWithTag(f));
         PendingSubOp op; op.isSub = true; op.pat = pat; op.filt = f; op.quiet = quiet; op.all = false;
         // further (pattern, filter) pairs: several SUBSCRIBE: fields, filtered and unfiltered ones mixed, in ONE SETPARAMETERS Message
         for (size_t i=5; i+1<n; i+=2)
         {
            const std::string pat2 = Unesc(A(i)); const Filt f2 = Filt::Parse(A(i+1)); const std::string fn2 = "SUBSCRIBE:" + pat2;
            if (m()->HasName(fn2.c_str())) continue;
            if (f2.IsNone()) (void) m()->AddBool(fn2.c_str(), true); else (void) m()->AddMessage(fn2.c_str(), ServerSim::ArchiveWithTag(f2));
            op.more.push_back(std::make_pair(pat2, f2));
         }
         if (quiet) (void) m()->AddBool(PR_NAME_SUBSCRIBE_QUIETLY, true);
         (void) m()->AddInt32(kOpIdField, opid);
         if (c) c->pending[opid] = op;
         return m;
      }
      if (((k == "unsub")&&(n >= 3))||((k == "unsuball")&&(n >= 2)))
      {
         MessageRef m = GetMessageFromPool(PR_COMMAND_REMOVEPARAMETERS);
         const int opid = (int) ToI(A(1)); const bool all = (k == "unsuball"); const std::string pat = all ? "" : Unesc(A(2));
         if (all) (void) m()->AddString(PR_NAME_KEYS, "SUBSCRIBE:*");
         else {String esc = String("SUBSCRIBE:") + pat.c_str(); esc = EscapeRegexTokens(esc); (void) m()->AddString(PR_NAME_KEYS, esc);}
         (void) m()->AddInt32(kOpIdField, opid);
         PendingSubOp op; op.isSub = false; op.pat = pat; op.quiet = false; op.all = all; if (c) c->pending[opid] = op;
         return m;
      }
      if ((k == "param")&&(n >= 3)) {MessageRef m = GetMessageFromPool(PR_COMMAND_SETPARAMETERS); (void) m()->AddInt32(Unesc(A(1)).c_str(), (int32) ToI(A(2))); return m;}
      if ((k == "rmparam")&&(n >= 2)) {MessageRef m = GetMessageFromPool(PR_COMMAND_REMOVEPARAMETERS); String esc = EscapeRegexTokens(String(Unesc(A(1)).c_str())); (void) m()->AddString(PR_NAME_KEYS, esc); return m;}
      if ((k == "rmparamw")&&(n >= 2)) {MessageRef m = GetMessageFromPool(PR_COMMAND_REMOVEPARAMETERS); (void) m()->AddString(PR_NAME_KEYS, Unesc(A(1)).c_str()); return m;}   // wildcard form (not escaped)
      if ((k == "ping")&&(n >= 2)) {MessageRef m = GetMessageFromPool(PR_COMMAND_PING); (void) m()->AddInt32("tag", (int32) ToI(A(1))); return m;}
      if ((k == "route")&&(n >= 3))
      {
         MessageRef m = GetMessageFromPool(ROUTED_WHAT);
         (void) m()->AddInt32("seq", (int32) ToI(A(1))); (void) m()->AddInt32("from", c ? c->idx : -1);
         (void) m()->AddString(PR_NAME_SESSION, (A(2) == "1") ? "999999" : "0");   // the sender-identity field, forged or merely guessed: the server must overwrite it with the true id
         bool anyFilt = false; std::vector<std::pair<std::string, Filt> > pf;
         for (size_t i=3; i<n; i++) {std::string pat; Filt f; SplitPatFilt(A(i), pat, f); pf.push_back(std::make_pair(pat, f)); if (!f.IsNone()) anyFilt = true;}
         for (auto & x : pf) (void) m()->AddString(PR_NAME_KEYS, x.first.c_str());
         if (anyFilt) for (auto & x : pf) {MessageRef fm = ServerSim::ArchiveWithTag(x.second); (void) m()->AddMessage(PR_NAME_FILTERS, fm() ? fm : GetMessageFromPool(0));}
         return m;
      }
      if ((k == "routebare")&&(n >= 2)) return GetMessageFromPool((uint32) BARE_BASE + (uint32)((c ? c->idx : 0)*100000) + (uint32)(ToU(A(1)) % 100000));   // no field at all: default route or broadcast
      if (k == "jettisontrees") {MessageRef m = GetMessageFromPool(PR_COMMAND_JETTISONDATATREES); for (size_t i=1; i<n; i++) (void) m()->AddString(PR_NAME_TREE_REQUEST_ID, Unesc(A(i)).c_str()); return m;}   /* cancels queued PR_RESULT_DATATREES results only (with ids: those; without: the untagged ones) */
      if (k == "jettison") {MessageRef m = GetMessageFromPool(PR_COMMAND_JETTISONRESULTS); for (size_t i=1; i<n; i++) (void) m()->AddString(PR_NAME_KEYS, Unesc(A(i)).c_str()); return m;}   // cancels queued PR_RESULT_DATAITEMS results only
      if (k == "routedefault")
      {
         MessageRef m = GetMessageFromPool(PR_COMMAND_SETPARAMETERS);
         bool anyFilt = false; std::vector<std::pair<std::string, Filt> > pf;
         for (size_t i=1; i<n; i++) {std::string pat; Filt f; SplitPatFilt(A(i), pat, f); pf.push_back(std::make_pair(pat, f)); if (!f.IsNone()) anyFilt = true;}
         for (auto & x : pf) (void) m()->AddString(PR_NAME_KEYS, x.first.c_str());
         if (anyFilt) for (auto & x : pf) {MessageRef fm = ServerSim::ArchiveWithTag(x.second); (void) m()->AddMessage(PR_NAME_FILTERS, fm() ? fm : GetMessageFromPool(0));}
         return m;
      }
      if (k == "rmroute") {MessageRef m = GetMessageFromPool(PR_COMMAND_REMOVEPARAMETERS); (void) m()->AddString(PR_NAME_KEYS, "\\!SnKy"); return m;}
      if (k == "rmroutefilters2") {MessageRef m = GetMessageFromPool(PR_COMMAND_REMOVEPARAMETERS); (void) m()->AddString(PR_NAME_KEYS, "\\!SnFl"); (void) m()->AddString(PR_NAME_KEYS, "nickname"); return m;}
      if (k == "rmroutefilters") {MessageRef m = GetMessageFromPool(PR_COMMAND_REMOVEPARAMETERS); (void) m()->AddString(PR_NAME_KEYS, "\\!SnFl"); return m;}
      if ((k == "insord")&&(n >= 4))
      {
         MessageRef m = GetMessageFromPool(PR_COMMAND_INSERTORDEREDDATA);
         (void) m()->AddString(PR_NAME_KEYS, Unesc(A(1)).c_str());
         for (size_t i=2; i+1<n; i+=2) (void) m()->AddMessage((A(i) == "-") ? "zzz_append" : Unesc(A(i)).c_str(), Payload((uint32) ToU(A(i+1)), "-"));
         return m;
      }
      if ((k == "reorder")&&(n >= 3))
      {
         MessageRef m = GetMessageFromPool(PR_COMMAND_REORDERDATA);
         for (size_t i=1; i+1<n; i+=2) (void) m()->AddString(Unesc(A(i)).c_str(), (A(i+1) == "-") ? "zzz_end" : Unesc(A(i+1)).c_str());
         return m;
      }
      if ((k == "priv")&&(n >= 3))
      {
         // privileged command codes sent without privilege: must bounce as PR_RESULT_ERRORACCESSDENIED and change nothing
         static const uint32 whats[] = {PR_COMMAND_KICK, PR_COMMAND_ADDBANS, PR_COMMAND_REMOVEBANS, PR_COMMAND_ADDREQUIRES, PR_COMMAND_REMOVEREQUIRES};
         MessageRef m = GetMessageFromPool(whats[ToU(A(1)) % 5]);
         for (size_t i=2; i<n; i++) (void) m()->AddString(PR_NAME_KEYS, Unesc(A(i)).c_str());
         return m;
      }
      if ((k == "setpriv")&&(n >= 2)) {MessageRef m = GetMessageFromPool(PR_COMMAND_SETPARAMETERS); (void) m()->AddInt32(PR_NAME_PRIVILEGE_BITS, (int32) ToI(A(1))); return m;}
      if ((k == "hostile")&&(n >= 3)) return HostileMessage(ToU(A(1)), (int) ToI(A(2)));
      return MessageRef();
   }

   void Run()
   {
      Cfg cfg(plan);
      sim.stallUs = (uint64_t) std::max<long long>(0, cfg.i("stall", 0));
      size_t opIdx = 0;
      for (const std::string & line : plan)
      {
         opIdx++;
         if (line.compare(0, 4, "cfg ") == 0) continue;
         const std::vector<std::string> t = Split(line); if (t.empty()) continue;
         SetCurOp("op %zu: %.300s", opIdx, line.c_str());
         WatchdogArm(0);
         sim.th.s(t[0]);
         const std::string & k = t[0];
         const int ci = (t.size() > 1) ? (int) ToI(t[1]) : 0;
         if ((k == "connect")&&(t.size() >= 4)) sim.Connect(ci, "h" + t[2], t[3] == "1");
         else if ((k == "send")||(k == "bsend"))
         {
            Conn * c = sim.UpC(ci); if (c == NULL) continue;
            MessageRef m = Build(c, t, 2); if (m() == NULL) continue;
            if (k == "bsend") c->batch.push_back(m);
            else
            {
               if ((t.size() > 2)&&(t[2] == "ping")&&(c->idx == sim.witnessConn)) {sim.witnessOutstanding = (int) ToI(t[3]); sim.witnessPingSentAtStep = -1;}
               sim.SendMsg(c, m);
            }
         }
         else if (k == "bflush")
         {
            Conn * c = sim.UpC(ci); if ((c == NULL)||(c->batch.empty())) continue;
            MessageRef b = GetMessageFromPool(PR_COMMAND_BATCH); for (auto & m : c->batch) (void) b()->AddMessage(PR_NAME_KEYS, m); c->batch.clear();
            sim.SendMsg(c, b); sim.st.inc("p.batch_sent");
         }
         else if (k == "step")
         {
            const int n = (t.size() > 1) ? (int) ToI(t[1]) : 1;
            for (int i=0; (i<n)&&(i<64); i++)
            {
               // the witness's liveness clock starts when its ping bytes have been handed to the server side of the wire
               if ((sim.witnessOutstanding >= 0)&&(sim.witnessPingSentAtStep < 0)) sim.witnessPingSentAtStep = (int64_t) sim.steps;
               sim.ServerStep();
            }
         }
         else if (k == "read") {Conn * c = sim.C(ci); if ((c)&&(!c->noread)) sim.ClientRead(c);}
         else if ((k == "noread")&&(t.size() >= 3)) {Conn * c = sim.C(ci); if (c) {c->noread = (t[2] == "1"); if (c->noread) sim.st.inc("f.slow_reader");}}
         else if ((k == "flood")&&(t.size() >= 3))
         {
            // the client becomes (or stops being) a flooding peer: an endless supply of valid NOOP frames is readable on its connection, as fast as the server reads.
            // What the server owes everybody else does not change: it may spend only a bounded share of each loop iteration on this client.
            static std::string noopFrame; if (noopFrame.empty()) {MessageIOGateway g; SimStream tmp, dummy; g.SetDataIO(DataIORef(new SimDataIO(&dummy, &tmp))); (void) g.AddOutgoingMessage(GetMessageFromPool(PR_COMMAND_NOOP)); for (int i=0; (i<10)&&(g.HasBytesToOutput()); i++) (void) g.DoOutput(); noopFrame.assign(tmp.q.begin(), tmp.q.end());}
            Conn * c = sim.C(ci);
            if ((c)&&(c->up))
            {
               if (t[2] == "1") {if ((c->gw)&&(c->gw->HasBytesToOutput() == false)&&(c->c2s.cutAfter < 0)&&(!c->c2s.closed)) {c->c2s.floodUnit = &noopFrame; c->c2s.SetSched(false, std::vector<uint32_t>(1, 0xffffffffu)); sim.st.inc("f.flooding_client");} /* (a flood arrives as fast as the server reads: whole-buffer reads from here on) */ else sim.st.inc("p.flood_skipped_partial_frame_pending");}
               else c->c2s.floodUnit = NULL;
            }
         }
         else if ((k == "stall")&&(t.size() >= 3))  {Conn * c = sim.C(ci); if (c) {c->stalled = (t[2] == "1"); if (c->stalled) sim.st.inc("f.stalled_client");}}
         else if ((k == "cap")&&(t.size() >= 3))    {Conn * c = sim.C(ci); if (c) c->s2c.capacity = ToU(t[2]) ? ToU(t[2]) : (uint64_t)-1;}
         else if ((k == "chunks")&&(t.size() >= 4))
         {
            Conn * c = sim.C(ci); if (c == NULL) continue;
            std::vector<uint32_t> v; for (size_t i=3; i<t.size(); i++) v.push_back((uint32_t) ToU(t[i]));
            if (t[2] == "r") c->c2s.SetSched(false, v); else c->s2c.SetSched(true, v);
         }
         else if ((k == "cut")&&(t.size() >= 3))
         {
            Conn * c = sim.UpC(ci); if (c == NULL) continue;
            const uint64_t pend = c->c2s.q.size(); const uint64_t kk = ToU(t[2]) % (pend + 1);
            c->c2s.q.resize((size_t) kk); c->c2s.closed = true; c->departedHow = "cut"; sim.st.inc("f.cut_at_byte");
            if (kk < pend) sim.st.inc("p.cut_inside_pending_bytes");
            // is the cut inside a command (not on a command boundary)?
            {const uint64_t total = c->c2s.totalRead + kk; bool boundary = (total == 0); for (uint64_t e : c->cmdEndOffsets) if (e == total) boundary = true; if (!boundary) sim.st.inc("p.cut_mid_command");}
         }
         else if (k == "close") {Conn * c = sim.UpC(ci); if (c) {c->c2s.closed = true; if (c->departedHow.empty()) c->departedHow = "close"; sim.st.inc("f.client_close");}}
         else if (k == "reset") {Conn * c = sim.UpC(ci); if (c) {c->s2c.broken = true; c->c2s.closed = true; c->departedHow = "reset"; sim.st.inc("f.reset_on_write");}}
         else if ((k == "advance")&&(t.size() >= 2)&&(sim.stallUs == 0)) {SimClockAdvance(ToU(t[1])); sim.st.inc("f.clock_jump");}
         else if (k == "idle") {if ((sim.stallUs == 0)&&(sim.nextPulse != MUSCLE_TIME_NEVER)&&(sim.nextPulse > g_simNowUs)) {g_simNowUs = sim.nextPulse; sim.st.inc("idle_jumps");}}
         else if (((k == "srvclone")||(k == "srvrestore"))&&(t.size() >= 5))
         {
            // a server-side clone / save+restore of one of this session's subtrees (no client command involved)
            Conn * c = sim.UpC(ci); if ((c == NULL)||(!c->session()->IsAttachedToServer())) continue;
            SetDataNodeFlags flags; for (char ch : t[4]) {if (ch == 'i') flags.SetBit(SETDATANODE_FLAG_ADDTOINDEX); else if (ch == 'o') flags.SetBit(SETDATANODE_FLAG_DONTOVERWRITEDATA);}
            const status_t r = (k == "srvclone") ? sim.Sess(c)->DoClone(Unesc(t[2]).c_str(), Unesc(t[3]).c_str(), flags) : sim.Sess(c)->DoSaveRestore(Unesc(t[2]).c_str(), Unesc(t[3]).c_str(), flags);
            sim.st.inc(r.IsOK() ? ((k == "srvclone") ? "p.subtree_cloned" : "p.subtree_restored") : "p.subtree_op_failed");
            if (sim.orc.index) sim.CheckIndexWellFormed();
            if (sim.orc.marks) sim.CheckMarks("after a server-side subtree clone/restore");
         }
         else if (k == "ghost") sim.GhostConnect();
         else if (k == "quiesce") sim.Quiesce("quiesce op");
         else if ((k == "slowq")&&(t.size() >= 4)) sim.SlowQuiesce((int) ToI(t[1]), (uint32_t) ToU(t[2]), (int) ToI(t[3]));
      }
      SetCurOp("final quiesce"); WatchdogArm(0);
      sim.Quiesce("end of run");
      WatchdogDisarm();
      sim.res.hash = sim.th.h;
      sim.res.simMicros = g_simNowUs - g_simStartUs;
      for (auto & cp : sim.conns) if (cp) {sim.st.inc("f.short_read", cp->c2s.shortReads); sim.st.inc("f.short_write", cp->s2c.shortWrites); sim.st.inc("f.would_block", cp->c2s.wouldBlocks + cp->s2c.wouldBlocks); sim.st.inc("f.one_byte", cp->c2s.oneByte + cp->s2c.oneByte);}
   }
};

}} // namespace vs::srv
