// sim/thrsim/sched.cpp -- see sched.h
#include "sched.h"
#include <semaphore.h>
#include <thread>
#include <map>
#include <mutex>
#include <time.h>
#include <unistd.h>
#include <signal.h>
#include <sched.h>
#include <new>
#include <sys/select.h>
#include <sys/socket.h>
#include <sys/syscall.h>
#include <sys/time.h>
#include <errno.h>
#include <dlfcn.h>
#include <pthread.h>
#include "support/VerifSimHooks.h"

extern "C" int __real_select(int, fd_set *, fd_set *, fd_set *, struct timeval *);
extern "C" ssize_t __real_send(int, const void *, size_t, int);
extern "C" ssize_t __real_recv(int, void *, size_t, int);
extern "C" int __real_socketpair(int, int, int, int[2]);
static bool g_failSocketpairs = false;

namespace vs { namespace thr {

struct SimThread
{
   int id; sem_t sem; int st; const void * waitObj; const volatile uint32_t * pending; uint64_t deadline; bool timedOut; const void * threadObj;
   bool inTimed; uint64_t apiDeadline; const char * timedTag; const std::function<bool()> * pred; int nfds; fd_set rs, ws; bool hasR, hasW; int prio; pid_t tid;
   bool cvSignalled, cvSpurious;
   bool oomOn = false; uint32_t oomCount = 0;   // fault: while the harness has the window open, this thread's nothrow allocations may fail
};
static std::vector<SimThread *> g_threads; static std::mutex g_reg; static sem_t g_regSem; static bool g_regSemInit = false;
static thread_local SimThread * t_self = NULL;
struct MutexState {int owner; int count;};
static std::map<const void *, MutexState> g_mutexes;
static uint64_t g_now = 1000000;
static SchedConfig g_cfg; static Rng g_rng(1); static Rng g_userRng(7);
static SchedStats g_stats; static TraceHash g_hash; static std::string g_decisions; static size_t g_replayPos = 0;
static InvariantFn g_invariant = NULL;
static volatile pid_t g_dyingTid = 0;
static bool g_active = false;
static const char * g_lastHook = "?";
static std::vector<int> g_pctChangePoints;   // step numbers at which the running thread's priority drops
static int g_rrNext = 0;
static bool g_beyondDeadline = false; static std::string g_beyondWhere;

static uint64_t NO_DEADLINE = (uint64_t)-1;

uint64_t Now() {return g_now;}
const SchedStats & Stats() {return g_stats;}
uint64_t DecisionHash() {return g_hash.h;}
std::string DecisionString() {return g_decisions;}
size_t NumThreads() {return g_threads.size();}
int StateOf(int tid) {return ((tid >= 0)&&((size_t) tid < g_threads.size())) ? g_threads[tid]->st : -1;}
const void * WaitObjOf(int tid) {return ((tid >= 0)&&((size_t) tid < g_threads.size())) ? g_threads[tid]->waitObj : NULL;}
int Self() {return t_self ? t_self->id : -1;}
const char * LastHookName() {return g_lastHook;}
void SetInvariant(InvariantFn fn) {g_invariant = fn;}

void ReportAndExit(const std::string & cls, const std::string & detail)
{
   std::string d = detail + " [decisions so far: " + U(g_stats.steps) + ", threads:";
   for (auto t : g_threads) {static const char * sn[] = {"runnable", "blocked-on-mutex", "blocked-on-cond", "blocked-on-join", "blocked-on-poll", "sleeping", "finished", "waiting-for-all", "waiting-for-harness-condition", "blocked-in-pthread-cond-wait"}; d += " t" + I(t->id) + "=" + sn[t->st];}
   d += "; schedule (thread chosen at each decision, A = clock advanced to the earliest deadline): " + ((g_decisions.size() > 1500) ? ("..." + g_decisions.substr(g_decisions.size()-1500)) : g_decisions) + "]";
   ExitWithViolation(cls, d, g_hash.h);
}

static bool IsTimedWaiter(const SimThread * t) {return ((t->st == ST_BL_COND)||(t->st == ST_BL_POLL)||(t->st == ST_BL_SLEEP)||(t->st == ST_BL_CV))&&(t->deadline != NO_DEADLINE);}
static bool PollReady(SimThread * t)
{
   fd_set r = t->rs, w = t->ws; struct timeval z = {0, 0};
   return __real_select(t->nfds, t->hasR ? &r : NULL, t->hasW ? &w : NULL, NULL, &z) > 0;
}
// enabled = can make progress right now without the clock moving; *byTimeout is set when the only reason is an expired deadline
static bool Enabled(SimThread * t, bool * byTimeout)
{
   *byTimeout = false;
   switch(t->st)
   {
      case ST_RUNNABLE: return true;
      case ST_BL_MUTEX: {auto it = g_mutexes.find(t->waitObj); return (it == g_mutexes.end())||(it->second.count == 0)||(it->second.owner == t->id);}
      case ST_BL_COND:  if (*t->pending > 0) return true; break;
      case ST_BL_POLL:  if (PollReady(t)) return true; break;
      case ST_BL_JOIN:  {for (size_t i=g_threads.size(); i>0; i--) if (g_threads[i-1]->threadObj == t->waitObj) return (g_threads[i-1]->st == ST_FINISHED); return true;}   // the LATEST incarnation of that Thread object (it may have been restarted)
      case ST_BL_SLEEP: break;
      case ST_BL_CV:    if ((t->cvSignalled)||(t->cvSpurious)) return true; break;
      case ST_BL_PRED:  return (t->pred == NULL)||((*t->pred)());
      case ST_BL_ALL:   {for (auto x : g_threads) if ((x != t)&&(x->st != ST_FINISHED)) return false; return true;}
      default: return false;
   }
   if ((IsTimedWaiter(t))&&(t->deadline <= g_now)) {*byTimeout = true; return true;}
   return false;
}
void FailSocketpairs(bool on) {g_failSocketpairs = on;}
void OomWindow(bool on) {if (t_self) t_self->oomOn = on;}
uint32_t OomsInjected() {return t_self ? t_self->oomCount : 0;}
static bool SimOom()
{
   SimThread * me = t_self;
   if ((me == NULL)||(!g_active)||(!me->oomOn)||(g_cfg.pOomPermille <= 0)||(g_replayPos < g_cfg.replay.size())) return false;
   if ((int) g_rng.below(1000) >= g_cfg.pOomPermille) return false;
   me->oomCount++; g_stats.ooms++; g_hash.u(0x00A110C); return true;
}
bool IsAsleep(int tid)
{
   if ((tid < 0)||((size_t) tid >= g_threads.size())) return false;
   SimThread * t = g_threads[tid]; if ((t->st != ST_BL_COND)&&(t->st != ST_BL_CV)&&(t->st != ST_BL_POLL)) return false;
   bool bt = false; return (Enabled(t, &bt) == false);
}
static void WaitForDyingThread()
{
   const pid_t d = g_dyingTid;
   if (d != 0)
   {
      // the thread that just passed its exit hook still runs its epilogue: let the kernel finish it before anybody else runs, so that
      // allocator activity never overlaps (keeps addresses, and with them pointer-keyed tables, a pure function of the schedule)
      for (int i=0; (i<200000)&&(syscall(SYS_tgkill, getpid(), d, 0) == 0); i++) sched_yield();
      g_dyingTid = 0;
   }
}

static void Schedule(const char * hook)
{
   SimThread * me = t_self;
   g_lastHook = hook;
   g_stats.steps++;
   if (g_stats.steps > g_cfg.stepCap) ReportAndExit("livelock_step_cap", "no termination within " + U(g_cfg.stepCap) + " scheduling decisions (last hook: " + hook + ")");
   if (g_invariant) {std::string cls; const std::string bad = g_invariant(cls); if (!bad.empty()) ReportAndExit(cls, bad + " (at hook '" + hook + "' of t" + I(me->id) + ")");}
   if (g_verbose) fprintf(stderr, "[thrsim] step %llu t%d %s now=%llu\n", (unsigned long long) g_stats.steps, me->id, hook, (unsigned long long) g_now);

   std::vector<SimThread *> en; std::vector<bool> enTimeout; SimThread * earliest = NULL;
   bool meEnabled = false;
   for (auto t : g_threads)
   {
      bool bt = false;
      if (Enabled(t, &bt)) {en.push_back(t); enTimeout.push_back(bt); if (t == me) meEnabled = true;}
      else if ((IsTimedWaiter(t))&&((earliest == NULL)||(t->deadline < earliest->deadline))) earliest = t;
   }
   SimThread * next = NULL; bool nextByTimeout = false; bool advance = false;

   if (g_replayPos < g_cfg.replay.size())
   {
      const int d = g_cfg.replay[g_replayPos++];
      if (d < 0) {if (earliest) advance = true;}
      else for (size_t i=0; i<en.size(); i++) if (en[i]->id == d) {next = en[i]; nextByTimeout = enTimeout[i];}
      if ((next == NULL)&&(!advance)) {if (meEnabled) next = me; else if (!en.empty()) {next = en[0]; nextByTimeout = enTimeout[0];} else if (earliest) advance = true;}
   }
   else if (en.empty()) {if (earliest) advance = true;}
   else if ((earliest)&&((int) g_rng.below(100) < g_cfg.pTimeoutPct)) advance = true;   // a timeout may fire at any instant it legally can: the others were merely slow
   else
   {
      size_t pick = 0;
      switch(g_cfg.strategy)
      {
         case 1:   // PCT-style: the highest-priority enabled thread runs; at change points the running thread drops to the lowest priority
         {
            for (int cp : g_pctChangePoints) if ((uint64_t) cp == g_stats.steps) {int lowest = 0; for (auto t : g_threads) if (t->prio < lowest) lowest = t->prio; me->prio = lowest-1;}
            int best = -1000000; for (size_t i=0; i<en.size(); i++) if (en[i]->prio > best) {best = en[i]->prio; pick = i;}
         }
         break;
         case 2:   // round-robin with perturbation
            if ((meEnabled)&&(!g_rng.oneIn(4))) {for (size_t i=0; i<en.size(); i++) if (en[i] == me) pick = i;}
            else {g_rrNext++; pick = (size_t) g_rrNext % en.size();}
         break;
         default:  // random walk with stickiness
            if ((meEnabled)&&((int) g_rng.below(100) >= g_cfg.pSwitchPct)) {for (size_t i=0; i<en.size(); i++) if (en[i] == me) pick = i;}
            else pick = g_rng.below((uint32_t) en.size());
         break;
      }
      next = en[pick]; nextByTimeout = enTimeout[pick];
   }

   if (advance)
   {
      if (g_now < earliest->deadline) g_now = earliest->deadline;
      next = earliest; nextByTimeout = true; g_stats.clockAdvances++;
      g_decisions += "A"; g_hash.u(0xA);
   }
   if (next == NULL)
   {
      std::string d = "no thread can run and no timed wait is pending:";
      for (auto t : g_threads) {char b[96]; static const char * sn[] = {"runnable", "mutex", "cond", "join", "poll", "sleep", "finished", "all-others-finished", "harness-condition", "pthread-cond"}; snprintf(b, sizeof(b), " t%d blocked-on(%s)", t->id, sn[t->st]); if (t->st != ST_FINISHED) d += b;}
      ReportAndExit("deadlock", d);
   }
   if (nextByTimeout) {next->timedOut = true; g_stats.timeoutsFired++;}
   g_decisions += (char)((next->id < 10) ? ('0' + next->id) : ('a' + next->id - 10)); g_hash.u((uint64_t) next->id + 1);
   if (next == me) {if ((me->st != ST_RUNNABLE)&&(me->st != ST_FINISHED)) me->st = ST_RUNNABLE; return;}
   g_stats.switches++; if ((meEnabled)&&(me->st == ST_RUNNABLE)) g_stats.preemptions++;
   if (next->st != ST_RUNNABLE) next->st = ST_RUNNABLE;
   const bool dying = (me->st == ST_FINISHED);
   if (dying) g_dyingTid = (pid_t) syscall(SYS_gettid);
   sem_post(&next->sem);
   if (!dying) {while((sem_wait(&me->sem) != 0)&&(errno == EINTR)) {} WaitForDyingThread();}
}

// ---------------------------------------------------------------- hooks
static void HMutexLock(const void * m)
{
   SimThread * me = t_self; if (!me) return;
   Schedule("lock");
   while(true)
   {
      MutexState & o = g_mutexes[m];
      if ((o.count == 0)||(o.owner == me->id)) {o.owner = me->id; o.count++; return;}
      me->st = ST_BL_MUTEX; me->waitObj = m; Schedule("lock-blocked");
   }
}
static bool HMutexTryLock(const void * m)
{
   SimThread * me = t_self; if (!me) return true;
   Schedule("trylock");
   MutexState & o = g_mutexes[m];
   if ((o.count == 0)||(o.owner == me->id)) {o.owner = me->id; o.count++; return true;}
   return false;
}
static void HMutexUnlock(const void * m)
{
   SimThread * me = t_self; if (!me) return;
   MutexState & o = g_mutexes[m]; if (o.count > 0) o.count--;
   Schedule("unlock");
}
static bool HCondWait(const void * wc, const volatile uint32_t * pending, uint64_t deadline)
{
   SimThread * me = t_self; if (!me) return true;
   if ((me->inTimed)&&(deadline > me->apiDeadline)&&(*pending == 0))
   {
      char b[256]; snprintf(b, sizeof(b), "t%d blocks on a condition with %s although the enclosing timed/try call's deadline is %llu (now %llu)", me->id, (deadline == NO_DEADLINE) ? "no deadline" : "a later deadline", (unsigned long long) me->apiDeadline, (unsigned long long) g_now);
      ReportAndExit(std::string("timed_") + (me->timedTag ? me->timedTag : "call") + "_waits_beyond_deadline", b);
   }
   Schedule("wait");
   while(*pending == 0)
   {
      me->st = ST_BL_COND; me->waitObj = wc; me->pending = pending; me->deadline = deadline; me->timedOut = false;
      Schedule("wait-blocked");
      if ((me->timedOut)&&(*pending == 0)) return false;
   }
   return true;
}
static void HCondNotify(const void *) {if (t_self) Schedule("notify");}
static void HYield(int kind, const void *)
{
   if (!t_self) return;
   static const char * kn[] = {"atomic-inc", "atomic-dec", "atomic-get", "atomic-set", "pre-notify", "user"};
   Schedule(((kind >= 0)&&(kind < 6)) ? kn[kind] : "yield");
}
static void RegisterSelf(const void * threadObj)
{
   SimThread * t = new SimThread(); sem_init(&t->sem, 0, 0); t->st = ST_RUNNABLE; t->waitObj = NULL; t->pending = NULL; t->threadObj = threadObj; t->deadline = NO_DEADLINE; t->timedOut = false;
   t->cvSignalled = t->cvSpurious = false; t->inTimed = false; t->apiDeadline = 0; t->timedTag = NULL; t->pred = NULL; t->nfds = 0; t->hasR = t->hasW = false; t->tid = (pid_t) syscall(SYS_gettid);
   {std::lock_guard<std::mutex> g(g_reg); t->id = (int) g_threads.size(); t->prio = (int) g_userRng.below(1000); g_threads.push_back(t); if (g_threads.size() > g_stats.maxThreads) g_stats.maxThreads = g_threads.size();}
   t_self = t;
}
static void HThreadCreated(const void *) {if (t_self) {while((sem_wait(&g_regSem) != 0)&&(errno == EINTR)) {}}}   // the parent proceeds only once the child is registered and parked
static void HThreadBegin(const void * obj) {if (!g_active) return; RegisterSelf(obj); sem_post(&g_regSem); while((sem_wait(&t_self->sem) != 0)&&(errno == EINTR)) {} WaitForDyingThread();}
static void HThreadEnd(const void *) {SimThread * me = t_self; if (!me) return; me->st = ST_FINISHED; Schedule("thread-exit"); t_self = NULL;}
static void HThreadJoin(const void * obj) {SimThread * me = t_self; if (!me) return; me->st = ST_BL_JOIN; me->waitObj = obj; Schedule("join");}
static uint64_t g_randState = 99;
static bool HRand32(uint32_t * r) {*r = (uint32_t)(SplitMix(g_randState) >> 32); return true;}
static bool HRand64(uint64_t * r) {*r = SplitMix(g_randState); return true;}
static MuscleVerifSimHooks g_hooksInUse;
static MuscleVerifSimHooks g_hooks = {HMutexLock, HMutexTryLock, HMutexUnlock, HCondWait, HCondNotify, HYield, HThreadCreated, HThreadBegin, HThreadEnd, HThreadJoin, HRand32, HRand64};

void Begin(const SchedConfig & cfg)
{
   g_cfg = cfg; g_rng = Rng(cfg.schedSeed, "schedule"); g_userRng = Rng(cfg.schedSeed, "prio"); g_randState = cfg.schedSeed ^ 0x5555;
   g_now = 1000000; g_stats = SchedStats(); g_hash = TraceHash(); g_decisions.clear(); g_replayPos = 0; g_mutexes.clear(); g_threads.clear(); g_dyingTid = 0; g_rrNext = 0; g_beyondDeadline = false; g_beyondWhere.clear();
   if (!g_regSemInit) {sem_init(&g_regSem, 0, 0); g_regSemInit = true;}
   g_pctChangePoints.clear(); {Rng pr(cfg.schedSeed, "pct"); for (int i=0; i<cfg.pctDepth; i++) g_pctChangePoints.push_back(1 + (int) pr.below((uint32_t) (cfg.pctSteps > 1 ? cfg.pctSteps : 2)));}
   g_active = true;
   RegisterSelf(NULL);
   g_hooksInUse = g_hooks; if (cfg.realCv) {g_hooksInUse.condWait = NULL; g_hooksInUse.condNotify = NULL;}
   g_muscleVerifSim = &g_hooksInUse;
}
void End() {g_muscleVerifSim = NULL; g_active = false; t_self = NULL; g_invariant = NULL;}
void Spawn(const std::function<void()> & fn)
{
   std::thread th([fn]() {HThreadBegin((const void *) &fn); fn(); HThreadEnd(NULL);});
   HThreadCreated(NULL);
   th.detach();
}
void Yield() {if (t_self) Schedule("user");}
void WaitUntil(const std::function<bool()> & pred)
{
   SimThread * me = t_self; if (!me) return;
   Schedule("wait-until");
   while(!pred()) {me->st = ST_BL_PRED; me->pred = &pred; Schedule("wait-until-blocked");}
   me->pred = NULL;
}
void WaitForAll()
{
   SimThread * me = t_self; if (!me) return;
   bool all = true; for (auto t : g_threads) if ((t != me)&&(t->st != ST_FINISHED)) all = false;
   if (!all) {me->st = ST_BL_ALL; Schedule("wait-all");}   // blocked until every other registered thread has finished (so "nobody can run" is still detected as a deadlock)
   WaitForDyingThread();
}
void EnterTimedCall(uint64_t deadline, const char * tag) {if (t_self) {t_self->inTimed = true; t_self->apiDeadline = deadline; t_self->timedTag = tag;}}
void LeaveTimedCall() {if (t_self) t_self->inTimed = false;}

// blocking helpers for the libc wrappers
static int SimSelect(int n, fd_set * r, fd_set * w, fd_set * e, struct timeval * tv)
{
   SimThread * me = t_self;
   Schedule("select");
   if ((g_cfg.pEintrPct > 0)&&((int) g_rng.below(100) < g_cfg.pEintrPct)&&(g_replayPos >= g_cfg.replay.size())) {g_stats.eintrs++; errno = EINTR; return -1;}   // interrupted before anything was ready: fd sets are unspecified, the caller retries
   while(true)
   {
      fd_set rc, wc; FD_ZERO(&rc); FD_ZERO(&wc); if (r) rc = *r; if (w) wc = *w; struct timeval z = {0, 0};
      const int k = __real_select(n, r ? &rc : NULL, w ? &wc : NULL, NULL, &z);
      const bool zeroTimeout = (tv)&&(tv->tv_sec == 0)&&(tv->tv_usec == 0);
      if ((k > 0)||(zeroTimeout)||(k < 0)) {if (r) *r = rc; if (w) *w = wc; if (e) FD_ZERO(e); return k;}
      if (((int) g_rng.below(100) < g_cfg.pSpuriousPollPct)&&(tv != NULL)&&(g_replayPos >= g_cfg.replay.size())) {g_stats.spuriousPolls++; if (r) FD_ZERO(r); if (w) FD_ZERO(w); if (e) FD_ZERO(e); return 0;}   // an early wake-up with nothing ready is legal for a timed wait
      me->st = ST_BL_POLL; me->nfds = n; me->hasR = (r != NULL); me->hasW = (w != NULL); FD_ZERO(&me->rs); FD_ZERO(&me->ws); if (r) me->rs = *r; if (w) me->ws = *w;
      me->deadline = tv ? (g_now + (uint64_t) tv->tv_sec*1000000ULL + (uint64_t) tv->tv_usec) : NO_DEADLINE; me->timedOut = false;
      if ((me->inTimed)&&(me->deadline > me->apiDeadline)) ReportAndExit(std::string("timed_") + (me->timedTag ? me->timedTag : "call") + "_waits_beyond_deadline", "t" + I(me->id) + " blocks in select() beyond the enclosing timed call's deadline");
      Schedule("select-blocked");
      if (me->timedOut) {fd_set rc2, wc2; FD_ZERO(&rc2); FD_ZERO(&wc2); if (r) rc2 = *r; if (w) wc2 = *w; struct timeval z2 = {0, 0}; const int k2 = __real_select(n, r ? &rc2 : NULL, w ? &wc2 : NULL, NULL, &z2); if (k2 > 0) {if (r) *r = rc2; if (w) *w = wc2; if (e) FD_ZERO(e); return k2;} if (r) FD_ZERO(r); if (w) FD_ZERO(w); if (e) FD_ZERO(e); return 0;}
   }
}
static void SimSleepUntil(uint64_t when)
{
   SimThread * me = t_self;
   if (when <= g_now) {Schedule("sleep0"); return;}
   me->st = ST_BL_SLEEP; me->deadline = when; me->timedOut = false;
   Schedule("sleep");
}


// ---- pthread condition variables underneath std::condition_variable (realCv mode).  The calling thread holds the (real) mutex m; nobody is ever
// parked while holding such a mutex (there is no hook point inside WaitCondition's critical sections), so the real lock/unlock below never block.
static int SimCvWait(pthread_cond_t * c, pthread_mutex_t * m, uint64_t deadline)
{
   SimThread * me = t_self;
   if ((me->inTimed)&&(deadline > me->apiDeadline))
   {
      char b[256]; snprintf(b, sizeof(b), "t%d blocks on a condition with %s although the enclosing timed/try call's deadline is %llu (now %llu)", me->id, (deadline == NO_DEADLINE) ? "no deadline" : "a later deadline", (unsigned long long) me->apiDeadline, (unsigned long long) g_now);
      ReportAndExit(std::string("timed_") + (me->timedTag ? me->timedTag : "call") + "_waits_beyond_deadline", b);
   }
   g_stats.cvWaits++;
   me->st = ST_BL_CV; me->waitObj = c; me->cvSignalled = false; me->deadline = deadline; me->timedOut = false;
   me->cvSpurious = ((g_cfg.pSpuriousCvPct > 0)&&((int) g_rng.below(100) < g_cfg.pSpuriousCvPct)&&(g_replayPos >= g_cfg.replay.size()));
   if (me->cvSpurious) g_stats.cvSpurious++;
   (void) pthread_mutex_unlock(m);
   Schedule("cv-wait");
   (void) pthread_mutex_lock(m);
   const bool timedOut = (me->timedOut)&&(!me->cvSignalled);
   me->cvSignalled = me->cvSpurious = false;
   return timedOut ? ETIMEDOUT : 0;
}
static void SimCvWake(pthread_cond_t * c, bool all)
{
   std::vector<SimThread *> ws; for (auto t : g_threads) if ((t->st == ST_BL_CV)&&(t->waitObj == (const void *) c)&&(!t->cvSignalled)) ws.push_back(t);
   g_stats.cvSignals++; if (ws.empty()) {g_stats.cvSignalsNoWaiter++; return;}
   if (all) {for (auto t : ws) t->cvSignalled = true; g_hash.u(0xB0 + ws.size()); return;}
   const size_t k = (ws.size() > 1) ? (size_t) g_rng.below((uint32_t) ws.size()) : 0;   // which waiter a signal wakes is the implementation's choice
   ws[k]->cvSignalled = true; g_hash.u(0xC0 + (uint64_t) ws[k]->id);
}
static bool SimCvActive() {return (t_self != NULL)&&(g_active)&&(g_muscleVerifSim != NULL);}
static uint64_t TsToUs(const struct timespec * ts) {return (uint64_t) ts->tv_sec*1000000ULL + (uint64_t)((ts->tv_nsec+999)/1000);}

}} // namespace vs::thr

// ---------------------------------------------------------------- libc seams (link-time wrappers) for the thrsim engine
using namespace vs::thr;
static const uint64_t kWallOffsetUs = 1700000000ULL*1000000ULL;
extern "C" {
// C++ function-local statics: libstdc++'s guard makes a second thread that needs a static under construction sleep on a futex the scheduler knows nothing about.  If the
// constructing thread is parked at a hook inside the constructor (an ObjectPool's constructor locks a Mutex) the second thread would then sleep for real, for ever.  These
// definitions replace the guard (the executable's strong definitions win the dynamic lookup, as for pthread_cond_*): same semantics, but the waiting is a scheduler wait.
// Layout as in the Itanium ABI: byte 0 = initialised (tested inline by compiled code), byte 1 = construction in progress.
int __cxa_guard_acquire(uint64_t * g)
{
   volatile unsigned char * b = (volatile unsigned char *) g;
   while(true)
   {
      if (__atomic_load_n(&b[0], __ATOMIC_ACQUIRE)) return 0;
      unsigned char expected = 0;
      if (__atomic_compare_exchange_n(&b[1], &expected, (unsigned char) 1, false, __ATOMIC_ACQ_REL, __ATOMIC_ACQUIRE))
      {
         if (__atomic_load_n(&b[0], __ATOMIC_ACQUIRE)) {__atomic_store_n(&b[1], (unsigned char) 0, __ATOMIC_RELEASE); return 0;}
         return 1;
      }
      if ((t_self != NULL)&&(g_active)) WaitUntil([b]() {return __atomic_load_n(&b[1], __ATOMIC_ACQUIRE) == 0;}); else sched_yield();
   }
}
void __cxa_guard_release(uint64_t * g) {volatile unsigned char * b = (volatile unsigned char *) g; __atomic_store_n(&b[0], (unsigned char) 1, __ATOMIC_RELEASE); __atomic_store_n(&b[1], (unsigned char) 0, __ATOMIC_RELEASE);}
void __cxa_guard_abort(uint64_t * g)   {volatile unsigned char * b = (volatile unsigned char *) g; __atomic_store_n(&b[1], (unsigned char) 0, __ATOMIC_RELEASE);}

int __wrap_clock_gettime(clockid_t id, struct timespec * ts)
{
   const uint64_t t = g_now + (((id == CLOCK_REALTIME)||(id == CLOCK_REALTIME_COARSE)) ? kWallOffsetUs : 0);
   ts->tv_sec = (time_t)(t/1000000); ts->tv_nsec = (long)((t%1000000)*1000); return 0;
}
int __wrap_gettimeofday(struct timeval * tv, void *) {const uint64_t t = g_now + kWallOffsetUs; if (tv) {tv->tv_sec = (time_t)(t/1000000); tv->tv_usec = (suseconds_t)(t%1000000);} return 0;}
time_t __wrap_time(time_t * t) {const time_t r = (time_t)((g_now + kWallOffsetUs)/1000000); if (t) *t = r; return r;}
int __wrap_clock_nanosleep(clockid_t, int flags, const struct timespec * req, struct timespec *)
{
   const uint64_t us = (uint64_t) req->tv_sec*1000000ULL + (uint64_t)(req->tv_nsec/1000);
   const uint64_t when = (flags & TIMER_ABSTIME) ? us : (g_now + us);
   if ((t_self)&&(g_muscleVerifSim)) SimSleepUntil(when); else if (when > g_now) g_now = when;
   return 0;
}
int __wrap_nanosleep(const struct timespec * req, struct timespec *)
{
   const uint64_t when = g_now + (uint64_t) req->tv_sec*1000000ULL + (uint64_t)(req->tv_nsec/1000);
   if ((t_self)&&(g_muscleVerifSim)) SimSleepUntil(when); else g_now = when;
   return 0;
}
int __wrap_select(int n, fd_set * r, fd_set * w, fd_set * e, struct timeval * tv)
{
   if ((t_self == NULL)||(g_muscleVerifSim == NULL)) {struct timeval z = {0, 0}; return __real_select(n, r, w, e, &z);}
   return SimSelect(n, r, w, e, tv);
}
static bool SimEintr() {if ((g_cfg.pEintrPct > 0)&&((int) g_rng.below(100) < g_cfg.pEintrPct)&&(g_replayPos >= g_cfg.replay.size())) {g_stats.eintrs++; errno = EINTR; return true;} return false;}
ssize_t __wrap_send(int fd, const void * b, size_t n, int f) {if ((t_self)&&(g_muscleVerifSim)) {Schedule("send"); if (SimEintr()) return -1;} return __real_send(fd, b, n, f);}
int __wrap_socketpair(int d, int t, int pr, int sv[2]) {if (g_failSocketpairs) {errno = EMFILE; return -1;} return __real_socketpair(d, t, pr, sv);}
ssize_t __wrap_recv(int fd, void * b, size_t n, int f) {if ((t_self)&&(g_muscleVerifSim)) {Schedule("recv"); if (SimEintr()) return -1;} return __real_recv(fd, b, n, f);}

// Symbol interposition (not --wrap): these are called from inside libstdc++.so (std::condition_variable::wait / notify_one / notify_all,
// std::chrono::steady_clock::now) as well as from header-inline code, and the executable's definition wins the dynamic lookup for both.
// Outside a simulated run, or on a thread the scheduler does not own, the real implementation is called.
typedef int (*CondWaitFn)(pthread_cond_t *, pthread_mutex_t *);
typedef int (*CondClockWaitFn)(pthread_cond_t *, pthread_mutex_t *, clockid_t, const struct timespec *);
typedef int (*CondTimedWaitFn)(pthread_cond_t *, pthread_mutex_t *, const struct timespec *);
typedef int (*CondFn)(pthread_cond_t *);
static void * RealSym(const char * name) {void * p = dlvsym(RTLD_NEXT, name, "GLIBC_2.3.2"); if (p == NULL) p = dlsym(RTLD_NEXT, name); return p;}
int pthread_cond_wait(pthread_cond_t * c, pthread_mutex_t * m)
{
   if (SimCvActive()) return SimCvWait(c, m, NO_DEADLINE);
   static CondWaitFn real = (CondWaitFn) RealSym("pthread_cond_wait"); return real(c, m);
}
int pthread_cond_clockwait(pthread_cond_t * c, pthread_mutex_t * m, clockid_t id, const struct timespec * ts)
{
   if (SimCvActive()) {const uint64_t t = TsToUs(ts); const uint64_t off = ((id == CLOCK_REALTIME)||(id == CLOCK_REALTIME_COARSE)) ? kWallOffsetUs : 0; return SimCvWait(c, m, (t > off) ? (t-off) : 0);}
   static CondClockWaitFn real = (CondClockWaitFn) dlsym(RTLD_NEXT, "pthread_cond_clockwait"); return real(c, m, id, ts);
}
int pthread_cond_timedwait(pthread_cond_t * c, pthread_mutex_t * m, const struct timespec * ts)
{
   if (SimCvActive()) {const uint64_t t = TsToUs(ts); return SimCvWait(c, m, (t > kWallOffsetUs) ? (t-kWallOffsetUs) : 0);}   // CLOCK_REALTIME unless the condattr says otherwise (muscle's C++11 branch never uses this entry point)
   static CondTimedWaitFn real = (CondTimedWaitFn) RealSym("pthread_cond_timedwait"); return real(c, m, ts);
}
int pthread_cond_signal(pthread_cond_t * c)
{
   if (SimCvActive()) {SimCvWake(c, false); return 0;}
   static CondFn real = (CondFn) RealSym("pthread_cond_signal"); return real(c);
}
int pthread_cond_broadcast(pthread_cond_t * c)
{
   if (SimCvActive()) {SimCvWake(c, true); return 0;}
   static CondFn real = (CondFn) RealSym("pthread_cond_broadcast"); return real(c);
}
// std::chrono::steady_clock::now() (inside libstdc++.so) computes WaitCondition's absolute wake-up time: it must read the simulated clock too
int clock_gettime(clockid_t id, struct timespec * ts)
{
   if (SimCvActive()) return __wrap_clock_gettime(id, ts);
   return (int) syscall(SYS_clock_gettime, id, ts);
}
}


// ---------------------------------------------------------------- fault: a memory allocation fails
// muscle allocates with new (nothrow) and handles NULL; these replacements (the executable's definitions replace the library's) make such an allocation of a simulated thread
// fail now and then while the harness holds that thread's window open.  Otherwise they defer to the throwing forms, so the sanitizer's bookkeeping stays the usual one.
void * operator new(std::size_t n, const std::nothrow_t &) noexcept   {if (SimOom()) return NULL; try {return ::operator new(n);}   catch(...) {return NULL;}}
void * operator new[](std::size_t n, const std::nothrow_t &) noexcept {if (SimOom()) return NULL; try {return ::operator new[](n);} catch(...) {return NULL;}}
