// sim/thrsim/sched.h -- thrsim: real threads, one runnable at a time.
// Every thread that runs code of the system under test is registered here and parked on its own semaphore; the scheduler is entered at
// every hook point (Mutex lock/unlock, WaitCondition wait/notify, AtomicCounter ops, signal-byte send/recv, blocking select, thread
// start/exit/join, harness yields) and releases exactly one thread.  Who runs is decided by a PRNG seeded from the plan (or by a recorded
// decision list); the code that runs is always the real code.
#pragma once
#include <stdint.h>
#include <string>
#include <vector>
#include <functional>
#include "../core/core.h"

namespace vs { namespace thr {

enum {ST_RUNNABLE = 0, ST_BL_MUTEX, ST_BL_COND, ST_BL_JOIN, ST_BL_POLL, ST_BL_SLEEP, ST_FINISHED, ST_BL_ALL, ST_BL_PRED, ST_BL_CV};

struct SchedConfig
{
   uint64_t schedSeed = 1;
   int strategy = 0;            // 0 random walk with stickiness, 1 PCT-style priorities, 2 round-robin with perturbation
   int pSwitchPct = 30;         // random walk: probability of considering a switch at a hook point
   int pctDepth = 2;            // PCT: number of priority change points
   int pctSteps = 400;          // PCT: estimated run length
   int pTimeoutPct = 5;         // probability of firing the earliest pending timeout although something is enabled
   int pSpuriousPollPct = 2;    // probability that a blocking poll returns 0 ready early (legal)
   uint64_t stepCap = 40000;    // livelock bound
   bool realCv = false;         // true: WaitCondition runs its real std::condition_variable code; the scheduler then simulates the pthread_cond_* calls underneath
                                //       (symbol interposition) instead of replacing Wait()/Notify() wholesale through the condWait/condNotify hooks
   int pEintrPct = 0;           // probability that a blocking select()/send()/recv() of a simulated thread fails with EINTR (a signal handler ran): callers must simply retry
   int pOomPermille = 0;        // probability (per thousand) that a nothrow allocation of a simulated thread fails while the harness has that thread's window open (OomWindow)
   int pSpuriousCvPct = 0;      // realCv: probability that a pthread_cond wait is woken without a signal (legal for a condition variable)
   std::vector<int> replay;     // if non-empty: recorded decisions (thread ids, -1 = advance clock) fed back instead of the PRNG
};

struct SchedStats {uint64_t steps = 0, switches = 0, timeoutsFired = 0, spuriousPolls = 0, preemptions = 0, maxThreads = 0, clockAdvances = 0, cvWaits = 0, cvSignals = 0, cvSpurious = 0, cvSignalsNoWaiter = 0, eintrs = 0, ooms = 0;};

// --- life cycle (called by the workload, on the main thread of the forked child)
void Begin(const SchedConfig & cfg);                 // registers the calling thread as thread 0 and installs the hooks
void End();                                          // uninstalls the hooks (all other threads must have finished)
void Spawn(const std::function<void()> & fn);        // starts a harness caller thread; returns once it is registered and parked
void WaitForAll();                                   // the calling thread yields until every other registered thread has finished
void Yield();                                        // a harness-inserted preemption point
void WaitUntil(const std::function<bool()> & pred);  // the calling thread is blocked until pred() holds (evaluated by the scheduler; must be side-effect free)
int  Self();                                         // ordinal of the calling thread (registration order), -1 if unregistered
uint64_t Now();                                      // simulated clock (microseconds)
const SchedStats & Stats();
uint64_t DecisionHash();
std::string DecisionString();                        // the decision trace, compact
size_t NumThreads();
int StateOf(int tid);
const void * WaitObjOf(int tid);
void OomWindow(bool on);                             // fault window of the calling thread: while open, its nothrow allocations fail with probability pOomPermille
uint32_t OomsInjected();                             // number of allocations of the calling thread that were made to fail so far
void FailSocketpairs(bool on);                       // fault: while on, socketpair() fails with EMFILE (the process is out of descriptors)
bool IsAsleep(int tid);                              // blocked in a condition / pthread_cond / poll wait that nothing has made ready (no notification pending, no signal, no readable byte, deadline not reached)

// --- deadline bookkeeping for the "returns by its deadline" oracle (C18): while a thread is inside a timed/try API call the harness
// declares the caller's deadline; any blocking wait with a later (or no) deadline performed meanwhile is recorded
// (a blocking wait beyond the declared deadline is reported at once as violation class "timed_<tag>_waits_beyond_deadline")
void EnterTimedCall(uint64_t deadline, const char * tag);
void LeaveTimedCall();

// --- invariant callback evaluated at every hook point (with the scheduler lock held, one thread running): return non-empty to fail
typedef std::string (*InvariantFn)(std::string & clsOut);
void SetInvariant(InvariantFn fn);

// --- violation reporting from any thread of the forked child: writes the result through the worker protocol and _exit()s
[[noreturn]] void ReportAndExit(const std::string & cls, const std::string & detail);

// what kind of hook point the current decision was taken at (for traces)
const char * LastHookName();

}} // namespace vs::thr
