#!/usr/bin/env python3
"""tools/run_mutants.py [--budget S] [--jobs N] [--only REGEX] [--out FILE]

Sensitivity campaign: every patch under /verif/mutants/<name>.diff (property = the C<nn> in its file name) and every accepted seeded
defect /verif/seeded/<id>/patch.diff is applied, one at a time, to a scratch copy of /repo (never to /repo), the property's registered
check is run against that copy (VERIF_REPO/VERIF_BUILD: same machinery and build rules), and the outcome is recorded:
detected = the check exited 1 with a VIOLATION line that is not one of the classes it also reports on the unchanged tree.
N scratch copies (/tmp/mrepo<k>, /tmp/mbuild<k>) work in parallel; results are appended to /verif/mutants/RESULTS.jsonl.
`--cleanup` removes the scratch copies."""
import sys, os, re, json, subprocess, time, shutil, threading, queue

def sh(cmd, **kw): return subprocess.run(cmd, shell=True, stdout=subprocess.PIPE, stderr=subprocess.STDOUT, text=True, **kw)

def main():
    args = sys.argv[1:]
    if args and args[0] == "--cleanup":
        for d in os.listdir("/tmp"):
            if re.fullmatch(r"m(repo|build)\d+", d): shutil.rmtree(os.path.join("/tmp", d), ignore_errors=True)
        return 0
    budget = "40"; jobs = 2; only = None; out = "/verif/mutants/RESULTS.jsonl"; workers = "6"
    def opt(name, default):
        if name in args: i = args.index(name); v = args[i+1]; del args[i:i+2]; return v
        return default
    budget = opt("--budget", budget); jobs = int(opt("--jobs", jobs)); only = opt("--only", None); out = opt("--out", out); workers = opt("--workers", workers)
    items = []
    for f in sorted(os.listdir("/verif/mutants")):
        m = re.search(r"(C\d\d)", f)
        if f.endswith(".diff") and m: items.append(dict(name=f[:-5], prop=m.group(1), diff=os.path.join("/verif/mutants", f), kind="planted"))
    if os.path.isdir("/verif/seeded"):
        for d in sorted(os.listdir("/verif/seeded")):
            pd = os.path.join("/verif/seeded", d)
            if d.startswith("_") or not os.path.exists(os.path.join(pd, "patch.diff")): continue
            meta = json.load(open(os.path.join(pd, "meta.json")))
            items.append(dict(name="seeded-" + d, prop=meta["property"], diff=os.path.join(pd, "patch.diff"), kind="seeded", dir=pd))
    if only: items = [it for it in items if re.search(only, it["name"])]
    q = queue.Queue()
    for it in items: q.put(it)
    lock = threading.Lock()
    def worker(k):
        repo, build = "/tmp/mrepo%d" % k, "/tmp/mbuild%d" % k
        # content-compared copy WITHOUT preserving modification times: a file that a previous campaign patched and reverted keeps its new mtime, so that the
        # object built from the patched version is rebuilt (rsync -a would put the old mtime back and leave a stale, still-patched object in the build dir)
        sh("mkdir -p %s && rsync -rl --checksum --delete --exclude _build --exclude .git /repo/ %s/" % (repo, repo))
        while True:
            try: it = q.get_nowait()
            except queue.Empty: return
            r = sh("cd %s && patch -p1 --no-backup-if-mismatch < %s" % (repo, it["diff"]))
            if r.returncode != 0:
                res = dict(it, detected=None, error="patch does not apply: " + r.stdout[-300:])
            else:
                env = dict(os.environ, VERIF_REPO=repo, VERIF_BUILD=build, VERIF_BUDGET_S=budget, VERIF_WORKERS=workers)
                t0 = time.time()
                c = subprocess.run(["/verif/check", it["prop"], "--tier", "quick"], stdout=subprocess.PIPE, stderr=subprocess.PIPE, text=True, env=env, cwd="/verif")
                viols = re.findall(r"VIOLATION property=(\S+) replay=(\S+)", c.stdout)
                classes = []
                for (_, rp) in viols:
                    try: classes.append(json.load(open(rp))["violation"]["class"])
                    except Exception: classes.append("?")
                res = dict(it, detected=(c.returncode == 1 and bool(viols)), exit=c.returncode, classes=classes, wall_s=round(time.time()-t0, 1),
                           summary=(c.stderr.strip().split("\n")[-1] if c.stderr.strip() else "")[:300], budget_s=budget,
                           verif_commit=sh("git -C /verif rev-parse --short HEAD").stdout.strip(), at=time.strftime("%Y-%m-%dT%H:%M:%SZ", time.gmtime()))
                if it["kind"] == "seeded":
                    json.dump({k2: v for k2, v in res.items() if k2 not in ("dir",)}, open(os.path.join(it["dir"], "detection.json"), "w"), indent=1)
                    if viols:
                        try: shutil.copy(viols[0][1], os.path.join(it["dir"], "replay.json"))
                        except Exception: pass
                sh("cd %s && patch -R -p1 --no-backup-if-mismatch < %s" % (repo, it["diff"]))
                sh("cd %s && grep '^+++ ' %s | sed 's|^+++ [ab]/||; s|\t.*||' | xargs -r touch" % (repo, it["diff"]))   # reverted files are newer than anything built from their patched version
            with lock:
                open(out, "a").write(json.dumps({k2: v for k2, v in res.items() if k2 != "dir"}) + "\n")
                print(json.dumps(dict(name=res["name"], prop=res["prop"], detected=res.get("detected"), classes=res.get("classes"), wall=res.get("wall_s"), error=res.get("error"))), flush=True)
    ts = [threading.Thread(target=worker, args=(k,)) for k in range(jobs)]
    for t in ts: t.start()
    for t in ts: t.join()
    return 0

if __name__ == "__main__":
    sys.exit(main())
