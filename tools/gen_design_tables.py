#!/usr/bin/env python3
"""Fills the generated tables of DESIGN.md (between <!-- BEGIN:x --> / <!-- END:x --> markers) from known_findings.json,
mutants/RESULTS.jsonl and seeded/*/detection.json."""
import json, os, re
H = "/verif"
def inject(s, name, text):
    a = s.index("<!-- BEGIN:%s -->" % name) + len("<!-- BEGIN:%s -->" % name); b = s.index("<!-- END:%s -->" % name)
    return s[:a] + "\n" + text + "\n" + s[b:]
s = open(H + "/DESIGN.md").read()
k = json.load(open(H + "/known_findings.json"))["findings"]
rows = ["| # | property | status | commit | what | found by the check as |", "|---|---|---|---|---|---|"]
def fkey(f): return int(re.sub(r"\D", "", f["id"]))
for f in sorted(k, key=fkey):
    what = f.get("what") or re.sub(r"^fixed: property=\S+ \S+ ", "", f.get("line", ""))
    found = f.get("found_as") or ("class `%s`" % f.get("match", {}).get("class", ""))
    rows.append("| %s | %s | %s | %s | %s | %s |" % (f["id"], f["property"], "**fixed**" if f["status"] == "fixed" else "known finding", "`%s`" % f["commit"] if f.get("commit") else "—", what.replace("|", "/"), found.replace("|", "/")))
s = inject(s, "findings", "\n".join(rows))
# sensitivity
res = {}
p = H + "/mutants/RESULTS.jsonl"
if os.path.exists(p):
    for l in open(p):
        try: r = json.loads(l)
        except Exception: continue
        res[r["name"]] = r
rows = ["| defect | property | kind | detected | violation class(es) reported | s |", "|---|---|---|---|---|---|"]
tot = det = 0
for name in sorted(res, key=lambda n: (res[n]["prop"], n)):
    r = res[name]
    if r.get("detected") is None: continue
    tot += 1; det += 1 if r["detected"] else 0
    rows.append("| %s | %s | %s | %s | %s | %s |" % (name, r["prop"], r.get("kind", ""), "yes" if r["detected"] else "**no**", ", ".join("`%s`" % c for c in (r.get("classes") or [])[:3]) or "—", r.get("wall_s", "")))
rows.append("")
rows.append("%d of %d detected within the quick budget used for the campaign (%s s of search per defect)." % (det, tot, (list(res.values())[0].get("budget_s") if res else "?")))
s = inject(s, "sensitivity", "\n".join(rows))
open(H + "/DESIGN.md", "w").write(s)
print("findings:", len(k), "sensitivity rows:", tot, "detected:", det)
