#!/usr/bin/env python3
"""tools/run_seeded.py [--budget S] [--tier quick] <seeded-id>...   (default: all under /verif/seeded)

Runs the registered check of the seeded defect's property against a scratch copy of /repo with the defect applied
(VERIF_REPO=/tmp/mrepo VERIF_BUILD=/tmp/mbuild: same machinery, same build rules, never touches /repo), records whether the
check reported a VIOLATION, and writes /verif/seeded/<id>/detection.json.  `--cleanup` removes the scratch copy.
"""
import sys, os, subprocess, json, time, shutil, re
MREPO, MBUILD = "/tmp/mrepo", "/tmp/mbuild"
def sh(cmd, **kw): return subprocess.run(cmd, shell=True, stdout=subprocess.PIPE, stderr=subprocess.STDOUT, text=True, **kw)
def main():
    args = sys.argv[1:]
    if args and args[0] == "--cleanup":
        shutil.rmtree(MREPO, ignore_errors=True); shutil.rmtree(MBUILD, ignore_errors=True); return 0
    budget = None; tier = "quick"
    if "--budget" in args: i = args.index("--budget"); budget = args[i+1]; del args[i:i+2]
    if "--tier" in args: i = args.index("--tier"); tier = args[i+1]; del args[i:i+2]
    ids = args or sorted(d for d in os.listdir("/verif/seeded") if not d.startswith("_"))
    sh("mkdir -p %s && rsync -a --delete --exclude _build --exclude .git /repo/ %s/" % (MREPO, MREPO))
    out = []
    for sid in ids:
        d = os.path.join("/verif/seeded", sid)
        meta = json.load(open(os.path.join(d, "meta.json")))
        prop = meta["property"]
        r = sh("cd %s && patch -p1 --no-backup-if-mismatch < %s/patch.diff" % (MREPO, d))
        if r.returncode != 0:
            print(sid, "patch failed", r.stdout[-300:]); continue
        env = dict(os.environ, VERIF_REPO=MREPO, VERIF_BUILD=MBUILD)
        if budget: env["VERIF_BUDGET_S"] = budget
        t0 = time.time()
        c = subprocess.run(["/verif/check", prop, "--tier", tier], stdout=subprocess.PIPE, stderr=subprocess.PIPE, text=True, env=env, cwd="/verif")
        wall = time.time() - t0
        viols = re.findall(r"VIOLATION property=(\S+) replay=(\S+)", c.stdout)
        classes = []
        for (_, rp) in viols:
            try: classes.append(json.load(open(rp))["violation"]["class"])
            except Exception: classes.append("?")
        det = dict(id=sid, property=prop, detected=bool(viols) and c.returncode == 1, exit=c.returncode, classes=classes, wall_s=round(wall, 1), tier=tier,
                   check_summary=(c.stderr.strip().split("\n")[-1] if c.stderr.strip() else ""), at=time.strftime("%Y-%m-%dT%H:%M:%SZ", time.gmtime()),
                   verif_commit=sh("git -C /verif rev-parse --short HEAD").stdout.strip())
        # keep the first replay as evidence
        if viols:
            try: shutil.copy(viols[0][1], os.path.join(d, "replay.json"))
            except Exception: pass
        json.dump(det, open(os.path.join(d, "detection.json"), "w"), indent=1)
        print(json.dumps(dict(id=sid, detected=det["detected"], exit=c.returncode, classes=classes, wall=det["wall_s"])), flush=True)
        sh("cd %s && patch -R -p1 --no-backup-if-mismatch < %s/patch.diff" % (MREPO, d))
        out.append(det)
    return 0
if __name__ == "__main__":
    sys.exit(main())
