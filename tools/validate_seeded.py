#!/usr/bin/env python3
"""tools/validate_seeded.py <src-dir-with patch.diff+demo.cpp+README.md> <seeded-id> <property>

Independently confirms one seeded defect delivered by a sub-agent, in a scratch worktree of /repo (never in /repo itself):
  1. unchanged tree: library + unit tests build; demo builds and PASSES (exit 0)
  2. patch applied:  library + unit tests build; the repository's test-suite (ctest, minus the always-failing testserial) passes;
                     demo builds and FAILS (non-zero exit)
Then copies patch.diff, demo.*, README.md into /verif/seeded/<seeded-id>/ and writes meta.json there.  The scratch worktree and its
build directory (/tmp/val) are shared between invocations (incremental builds) and are removed by `--cleanup`.
"""
import sys, os, subprocess, json, shutil, time

VAL = os.environ.get("VAL_DIR", "/tmp/val")   # (several validations can run side by side, each with a directory of its own)
WT = VAL + "/wt"; BUILD = VAL + "/build"
def sh(cmd, **kw):
    return subprocess.run(cmd, shell=True, stdout=subprocess.PIPE, stderr=subprocess.STDOUT, text=True, **kw)

def ensure_wt():
    if not os.path.isdir(WT):
        os.makedirs(VAL, exist_ok=True)
        r = sh("git -C /repo worktree add --detach %s HEAD" % WT)
        if r.returncode != 0: print(r.stdout); sys.exit(2)
    else:
        sh("git -C %s checkout -q --detach %s && git -C %s checkout -- . && git -C %s clean -fdq" % (WT, sh("git -C /repo rev-parse HEAD").stdout.strip(), WT, WT))
    if not os.path.exists(os.path.join(BUILD, "build.ninja")):
        r = sh("cmake -G Ninja -S %s -B %s -DWITH_TESTS=ON -DCMAKE_BUILD_TYPE=RelWithDebInfo" % (WT, BUILD))
        if r.returncode != 0: print(r.stdout[-3000:]); sys.exit(2)

def build():
    r = sh("cmake --build %s -j6" % BUILD)
    return r.returncode == 0, r.stdout[-3000:]

def run_demo(src):
    exe = VAL + "/demo_bin"
    if os.path.exists(os.path.join(src, "demo.sh")):
        if os.path.exists(exe): os.remove(exe)
        r = sh("WT=%s BUILD=%s sh %s/demo.sh %s %s" % (WT, BUILD, src, WT, exe), timeout=600)
        if r.returncode == 0 and os.path.exists(exe):
            # a demo.sh that only builds (its header says: "then run <output-exe-path>")
            r2 = sh("timeout 300 " + exe)
            return r2.returncode, (r.stdout + r2.stdout)[-2000:]
        return r.returncode, r.stdout[-2000:]
    r = sh("g++ -std=c++11 -O1 -w -DMUSCLE_ENABLE_ZLIB_ENCODING -DMUSCLE_NO_EXCEPTIONS -I%s %s/demo.cpp %s/libmuscle.a -lz -lpthread -o %s" % (WT, src, BUILD, exe))
    if r.returncode != 0: return -999, "demo does not compile:\n" + r.stdout[-2000:]
    try:
        r = sh("timeout 300 " + exe)
    except subprocess.TimeoutExpired:
        return -998, "demo timed out"
    return r.returncode, r.stdout[-2000:]

def main():
    if sys.argv[1] == "--cleanup":
        sh("git -C /repo worktree remove --force %s" % WT); shutil.rmtree(VAL, ignore_errors=True); sh("git -C /repo worktree prune"); return 0
    src, sid, prop = sys.argv[1], sys.argv[2], sys.argv[3]
    res = dict(id=sid, property=prop, source=src, repo_head=sh("git -C /repo rev-parse --short HEAD").stdout.strip(), validated_at=time.strftime("%Y-%m-%dT%H:%M:%SZ", time.gmtime()))
    ensure_wt()
    ok, out = build()
    if not ok: res.update(ok=False, why="unchanged tree does not build", log=out); return finish(res, src, sid)
    rc0, out0 = run_demo(src)
    res["demo_unchanged"] = dict(exit=rc0, tail=out0[-600:])
    r = sh("git -C %s apply --whitespace=nowarn %s/patch.diff" % (WT, src))
    if r.returncode != 0:
        res.update(ok=False, why="patch does not apply to current HEAD", log=r.stdout[-1500:]); return finish(res, src, sid)
    try:
        ok, out = build()
        if not ok: res.update(ok=False, why="changed tree does not build", log=out); return finish(res, src, sid)
        t = sh("ctest --test-dir %s -j8 --timeout 300 -E testserial" % BUILD)
        tail = t.stdout[-1500:]
        passed = ("100% tests passed" in t.stdout)
        res["tests_with_change"] = dict(passed=passed, tail=tail[-500:], cmd="ctest --test-dir <build> -j8 --timeout 300 -E testserial   (46 tests; testserial is the baseline's always-failing test)")
        rc1, out1 = run_demo(src)
        res["demo_changed"] = dict(exit=rc1, tail=out1[-600:])
        res["ok"] = bool(passed and rc0 == 0 and rc1 not in (0, -999, -998))
        if not res["ok"]: res["why"] = "tests passed=%s demo unchanged exit=%s demo changed exit=%s" % (passed, rc0, rc1)
    finally:
        sh("git -C %s checkout -- . && git -C %s clean -fdq" % (WT, WT))
    return finish(res, src, sid)

def finish(res, src, sid):
    dst = os.path.join("/verif/seeded", sid)
    if res.get("ok"):
        os.makedirs(dst, exist_ok=True)
        for f in os.listdir(src):
            if os.path.isfile(os.path.join(src, f)): shutil.copy(os.path.join(src, f), os.path.join(dst, f))
        meta = dict(res); meta["what_it_needs_to_manifest"] = "see README.md (written by the sub-agent that produced the change)"
        meta["what_was_run"] = "tools/validate_seeded.py: scratch worktree of /repo; unchanged build + demo (exit 0); patch applied, build, ctest minus testserial (all pass), demo (non-zero exit); reverted"
        json.dump(meta, open(os.path.join(dst, "meta.json"), "w"), indent=1)
    else:
        os.makedirs("/verif/seeded/_rejected", exist_ok=True)
        json.dump(res, open("/verif/seeded/_rejected/%s.json" % sid, "w"), indent=1)
    print(json.dumps(dict(id=sid, ok=res.get("ok"), why=res.get("why", ""))))
    return 0 if res.get("ok") else 1

if __name__ == "__main__":
    sys.exit(main())
