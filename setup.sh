#!/bin/sh
# setup_cmd: configure and build the instrumented library (from $VERIF_REPO, default /repo) and all simulation workers.  Offline.
set -e
cd "$(dirname "$0")"
exec ./check --build
