#!/usr/bin/env python3
# Regenerates MANIFEST.json from the table below (kept as a script so the manifest stays consistent while checks are added).
import json, subprocess, os
HERE = os.path.dirname(os.path.abspath(__file__))
hooks = [l.split()[0] for l in subprocess.run(["git", "-C", "/repo", "log", "--format=%h %s"], stdout=subprocess.PIPE, text=True).stdout.split("\n") if "verif hooks" in l]
NA = [
 ("C01", "pure function of the Message value (flatten/unflatten/size/checksum/equality): no schedule, clock, fault or second party for a simulator to act on; input generation alone would be property-based testing, not simulation"),
 ("C08", "byte-for-byte agreement of four codecs is a pure function of the Message (differential codec testing; the Python side cannot even run inside the simulator); C03's C++<->C gateway pairs exercise the stream framing only as a by-product"),
 ("C09", "single-threaded operation histories on one in-memory container against a reference map: model-based data-structure testing with nothing nondeterministic to simulate"),
 ("C14", "QueryFilter evaluation/archiving/parsing are pure functions of (filter, Message) or of a string; hostile filter archives inside a live server are covered under C07's claim instead"),
 ("C15", "StringMatcher matching/escaping are pure functions of strings; C05 checks that tree traversal agrees with per-path matching but takes the matcher's verdicts as given"),
 ("C16", "single-threaded histories on an in-memory deque compared with an ideal sequence: no I/O, time, fault or concurrency in the property"),
 ("C17", "single-threaded histories on a value type compared with an ideal byte string: no I/O, time, fault or concurrency in the property"),
]
SRVNOTE = "Trusts: the simulated transport/select/clock seams; the accept path is bypassed (AddNewSession); oracles use an independent matcher on a conservative pattern/filter subset (muscle's own per-path matcher where the property names it as the reference); sampling, not enumeration."
CHECKS = {
 "C04": dict(engine="netsim/server", section="3 (C04)",
   text="Seeded multi-client histories against the real ReflectServer (stepped one event-loop iteration at a time under simulated select/clock/transport) with segmentation, slow-reader, stall, cut, reset and clock-jump faults; the subscriber-mark invariant is evaluated after every processed command and every client's mirror is compared with the real tree at every forced quiescent point (bounded-step liveness). Exploration over the seeds run.",
   note=SRVNOTE, technique="deterministic simulation with fault injection: real server + simulated clients, reference evaluation at linearisation points, mirror/mark oracles at quiescence"),
 "C05": dict(engine="netsim/server", section="3 (C05)",
   text="Same harness; routed Messages with conservative and full-syntax keys, filters, default routes, !Self, forged sender ids; the expected recipient set is computed at the instant the server processes each Message (muscle's MatchesPath over every node = the property's brute-force clause, plus an independent matcher) and compared with actual deliveries (exactly once, order, identity) at quiescence. Exploration.",
   note=SRVNOTE, technique="deterministic simulation: expectation at the server's linearisation point vs. deliveries at quiescence"),
 "C06": dict(engine="netsim/server", section="3 (C06)",
   text="Same harness; trespassing commands plus connection cuts after arbitrary byte prefixes (mostly inside a command), resets and closes while other traffic is in flight; per-command tree/mark diff confined to the sender's subtree, no processing of partially received commands, no unexplained disconnects, complete cleanup checked right after each departure. Exploration.",
   note=SRVNOTE, technique="deterministic simulation with crash-point (cut-at-byte) injection: per-command isolation diff and post-departure cleanup invariants"),
 "C07": dict(engine="netsim/server", section="3 (C07)",
   text="Same harness; a hostile client driven by per-handler templates with perturbed arguments (and a minority of flat random Messages) while not reading, victims under C04's oracles, a witness whose ping must be answered within 64 server steps; watchdog turns a non-returning handler into a reported hang. Exploration.",
   note=SRVNOTE, technique="deterministic simulation: scenario-directed hostile traffic, bounded-liveness witness, watchdog, sanitizers"),
 "C13": dict(engine="netsim/server", section="3 (C13)",
   text="Same harness; index-heavy histories; each client replays the index update log and its replica is compared with the real index at every quiescent point; index well-formedness after every processed command. Exploration.",
   note=SRVNOTE, technique="deterministic simulation: log-replay replica vs. real index at quiescence"),
 "C02": dict(engine="netsim/wire", section="3 (C02)",
   text="Seeded hostile-transport simulation into every gateway input path (binary, templating, zlib, text, raw, SLIP, WebSocket, C mini gateway, both packet tunnels): a real sender's valid stream is rewritten (boundary values in every length/count/type word, flips, truncations incl. inside a consistently framed body, garbage, splices) and fed to a real receiver under a seeded chunk schedule, in an ASan+UBSan build with exact-size frame copies; oracle = no sanitizer report, no hang/no-progress loop, delivered Messages well-formed, receiver reusable after Reset(), allocation <= 256N+1MiB per N-byte frame. Exploration over the seeds run; scoped to parsers reachable through a transport.",
   note="Trusts: ASan/UBSan as the memory-safety oracle (alignment checks off); uninitialised reads are not visible to them; direct calls of Unflatten on caller-supplied buffers and the MicroMessage codec are out of scope; not coverage-guided.",
   technique="deterministic simulation with fault injection: seeded structure-aware corruption/truncation/splicing of real gateway streams, fed under seeded segmentation to real receivers under ASan/UBSan with watchdog, reuse and allocation-bound oracles"),
 "C03": dict(engine="netsim/wire", section="3 (C03)",
   text="Seeded search over gateway pairs on a simulated byte stream: every gateway type (binary in 10 encodings with mid-stream encoding changes, templating, text, raw, SLIP, WebSocket pair, C mini<->C++), chunk schedules from whole-buffer down to 1 byte with would-blocks and framing/buffer-boundary sizes, arbitrary interleavings of enqueue/DoOutput(max)/DoInput(max); prefix oracle after every call, equality and bounded-step liveness after the drain. Exploration: a clean batch is evidence over the seeds run, not a proof.",
   note="Trusts: the simulated stream is reliable/ordered; comparison is by re-serialised bytes (so Message::Flatten is trusted to be injective); UBSan alignment checks off. ASan+UBSan build of the real sources with MUSCLE_VERIF_HOOKS.",
   technique="deterministic simulation: seeded chunk-schedule and call-interleaving search over real gateway pairs on a simulated stream, prefix/equality oracle"),
}
m = dict(version=1, setup_cmd="./setup.sh",
  hooks=dict(guard="MUSCLE_VERIF_HOOKS",
             enable="checks compile /repo's sources themselves (CMake/Ninja project /verif/sim -> /verif/build) with -DMUSCLE_VERIF_HOOKS -fsanitize=address,undefined; hooks are inert until a simulator installs g_muscleVerifSim",
             baseline_off_cmd="cmake --build /repo/_build && ctest --test-dir /repo/_build -j8 --timeout 900",
             source_commits=list(reversed(hooks)), add_only=True),
  engines=[
    dict(name="netsim/wire", path="sim/props/wire_worker.cpp", serves_properties=["C02", "C03"], kind_free_text="single-threaded discrete simulation of byte-stream transports between real gateway objects; plan = explicit op list incl. chunk schedules"),
    dict(name="netsim/server", path="sim/props/server_worker.cpp", serves_properties=["C04", "C05", "C06", "C07", "C13"], kind_free_text="real ReflectServer stepped one event-loop iteration at a time under wrapped select()/clock, N simulated clients with real gateways, reference model driven at the server's linearisation points"),
    dict(name="netsim/dgram", path="sim/props/dgram_worker.cpp", serves_properties=["C12"], kind_free_text="simulated lossy/duplicating/reordering datagram network between real packet-tunnel gateways"),
    dict(name="netsim/pulse", path="sim/props/pulse_worker.cpp", serves_properties=["C20"], kind_free_text="discrete-event clock driving real PulseNode trees through a harness PulseNodeManager"),
    dict(name="thrsim", path="sim/props/thr_worker.cpp", serves_properties=["C10", "C11", "C18", "C19"], kind_free_text="real threads parked on semaphores and released one at a time by a seeded scheduler entered at Mutex/WaitCondition/AtomicCounter/thread-lifecycle hooks; one fork()ed child per seed"),
  ],
  checks=[], not_applicable=[dict(property_id=i, reason=r) for i, r in NA],
  notes="All claimed checks are exploration-level seeded simulation (see DESIGN.md). Exit 2 from a check means a harness problem (build failure, non-reproducible failure, determinism mismatch), never a hidden violation. Properties not yet listed under checks or not_applicable are still being built.")
for pid in sorted(CHECKS):
    c = CHECKS[pid]
    if not os.path.exists(os.path.join(HERE, "sim", "props", pid.lower() + ".h")): continue
    m["checks"].append(dict(property_id=pid, quick_cmd="./check %s --tier quick" % pid, thorough_cmd="./check %s --tier thorough" % pid,
        evidence_file="evidence/%s.json" % pid, replay_cmd_template="./check %s --replay {path}" % pid, engine=c["engine"],
        level_claimed=dict(category="exploration", text=c["text"], design_ref=c["section"]), level_note=c["note"], technique=c["technique"]))
claimed = {c["property_id"] for c in m["checks"]} | {n["property_id"] for n in m["not_applicable"]}
m["engines"] = [e for e in m["engines"] if any(p in {c["property_id"] for c in m["checks"]} for p in e["serves_properties"])]
for pid in sorted(set("C%02d" % i for i in range(1, 21)) - claimed):
    m["not_applicable"].append(dict(property_id=pid, reason="not claimed yet: the simulation check for this property is designed (DESIGN.md section 3) but not registered until its worker exists and runs clean"))
m["not_applicable"].sort(key=lambda n: n["property_id"])
json.dump(m, open(os.path.join(HERE, "MANIFEST.json"), "w"), indent=1)
print("checks:", [c["property_id"] for c in m["checks"]], "unlisted:", sorted(set("C%02d" % i for i in range(1, 21)) - claimed))
