#!/usr/bin/env python3
# Regenerates MANIFEST.json from the table below (kept as a script so the manifest stays consistent while checks are added).
import json, subprocess, os
HERE = os.path.dirname(os.path.abspath(__file__))
hooks = [l.split()[0] for l in subprocess.run(["git", "-C", "/repo", "log", "--format=%h %s"], stdout=subprocess.PIPE, text=True).stdout.split("\n") if "verif hooks" in l]
NA = [
 ("C01", "pure function of the Message value (flatten/unflatten/size/checksum/equality): no schedule, clock, fault or second party for a simulator to act on; input generation alone would be property-based testing, not simulation"),
 ("C08", "byte-for-byte agreement of four codecs is a pure function of the Message (differential codec testing; the Python side cannot even run inside the simulator); C03's C++<->C gateway pairs exercise the stream framing only as a by-product"),
 ("C09", "single-threaded operation histories on one in-memory container against a reference map: model-based data-structure testing with nothing nondeterministic to simulate"),
 ("C14", "QueryFilter evaluation/archiving/parsing are pure functions of (filter, Message) or of a string; hostile filter archives inside a live server are covered under C07's claim instead"),
 ("C15", "StringMatcher matching/escaping are pure functions of strings; C05 checks that tree traversal agrees with per-path matching but takes the matcher's verdicts as given"),
 ("C16", "single-threaded histories on an in-memory deque compared with an ideal sequence: no I/O, time, fault or concurrency in the property"),
 ("C17", "single-threaded histories on a value type compared with an ideal byte string: no I/O, time, fault or concurrency in the property"),
]
SRVNOTE = "Trusts: the simulated transport/select/clock seams; the accept path is bypassed (AddNewSession); oracles use an independent matcher on a conservative pattern/filter subset (muscle's own per-path matcher where the property names it as the reference); sampling, not enumeration."
THRNOTE = "Trusts: interleavings are explored at hook granularity under sequential consistency (Mutex, WaitCondition, AtomicCounter, signal byte, select, thread start/exit/join); std primitives and the kernel socket pair; each seed runs in a child forked from a pristine ASLR-free zygote. Sampling, not enumeration."
CHECKS = {
 "C10": dict(engine="thrsim", section="3 (C10)",
   text="Seeded schedules of real threads over shared Refs to instrumented pooled and heap objects (tiny slabs so slabs are created, cached and deleted outside the lock during the run), with preemption at every AtomicCounter operation and Mutex lock/unlock; exactly-once release, never-early release, freshness and pool consistency are checked inside the objects and at the end. Exploration.",
   note=THRNOTE, technique="deterministic simulation: controlled scheduler over real threads, instrumented-object oracle"),
 "C11": dict(engine="thrsim", section="3 (C11)",
   text="Seeded schedules of owner, extra senders and the internal thread of a real muscle Thread (both signalling mechanisms, default loop and own select-first / timed event loops, owners that poll, select or are woken through a SocketCallbackMechanism, start with queued Messages and replies, failing socket creation, EINTR, spurious wake-ups, shutdown, restart); exactly-once/in-order logs, a no-lost-wake-up invariant at every scheduling point (a side asleep with a completed send queued) and a deadlock detector. Exploration.",
   note=THRNOTE, technique="deterministic simulation: controlled scheduler over real threads, sequence oracle + deadlock detector"),
 "C12": dict(engine="netsim/dgram", section="3 (C12)",
   text="Seeded simulation of 1-3 sending tunnel gateways and one receiver over a datagram network with per-packet loss, duplication, reordering (indexed systematically for <= 6 packets in flight, sampled beyond), would-blocks and sender restarts, MTU 17..9000, both tunnel types, zlib levels 0-9, with and without a slave gateway; every delivered Message must be byte-identical to a sent one of that source (a splice analysis names the two Messages otherwise), and fault-free runs must deliver exactly the sent sequences. Exploration.",
   note="Trusts: the simulated datagram network; message-id wrap-around is produced by rebasing the ids in every fragment header on the simulated wire; sender_restart remains (the resulting splice is known finding F10); 1 run in 12 carries the tunnel over PacketizedProxyDataIO on a chunked reliable byte stream instead; more than a few concurrent sources (the receiver's 256-entry LRU table) are outside the property's quantifier; a zlib-compressing slave gateway (documented FIFO-only) is not used.", technique="deterministic simulation with fault injection: lossy/duplicating/reordering datagram network, membership and sequence oracles"),
 "C18": dict(engine="thrsim", section="3 (C18)",
   text="Seeded schedules (random walk, PCT, round-robin; low-preemption schedules over-sampled) of 2-4 real threads (8-12 in crowd runs, where acquires may also fail for lack of memory: allocation-failure fault) on one real ReaderWriterMutex with timeouts firing at any legal instant; shadow-table exclusion invariant at every hook, recursion/upgrade accounting, writer preference, deadline discipline of timed/try calls, deadlock and livelock detection. Exploration.",
   note=THRNOTE, technique="deterministic simulation: controlled scheduler over real threads, shadow lock table invariant + deadlock detector"),
 "C19": dict(engine="thrsim", section="3 (C19)",
   text="Seeded schedules of submitters, pool threads, unregister/re-register and pool shutdown (also with handlers running and Messages outstanding) on a real ThreadPool; exactly-once, per-client order, per-client seriality, thread limit, unregister-waits and shutdown-returns oracles. Exploration.",
   note=THRNOTE, technique="deterministic simulation: controlled scheduler over real threads, handler-log oracle + deadlock detector"),
 "C20": dict(engine="netsim/pulse", section="3 (C20)",
   text="Seeded histories on trees of instrumented PulseNodes under 1-3 manager roots driven through the ReflectServer protocol under a simulated clock (attach/detach/re-parent/destroy, requested times past/now/future/never/ties, invalidation from outside and from inside callbacks, early/exact/late wake-ups, clock jumps); root time == minimum, exactly the due nodes pulsed once with their own scheduled time, re-query discipline, with the one documented deferral relaxation for branches displaced by in-callback operations. Exploration.",
   note="Trusts: the simulated clock (+1us per read); the first oracle's harness manager mirrors ReflectServer's use of CallGetPulseTimeAux/CallPulseAux, the second oracle (30% of the budget, worker property C20S) steps the real ReflectServer event loop with instrumented sessions and I/O policies; the order of simultaneously due callbacks is not checked; known findings F31 (a too-early wake-up after a later answer within one recalculation) and F32 (a session attached from inside an I/O policy's GetPulseTime() is not asked before the wait) are reported as such.", technique="deterministic discrete-event simulation: simulated clock driving real PulseNode trees, shadow-model oracle"),
 "C04": dict(engine="netsim/server", section="3 (C04)",
   text="Seeded multi-client histories against the real ReflectServer (stepped one event-loop iteration at a time under simulated select/clock/transport) with segmentation, slow-reader, stall, slow-link (backlog outlasting the transport's output stall limit), cut, reset and clock-jump faults; the subscriber-mark invariant is evaluated after every processed command and every client's mirror is compared with the real tree at every forced quiescent point (bounded-step liveness). Exploration over the seeds run.",
   note=SRVNOTE, technique="deterministic simulation with fault injection: real server + simulated clients, reference evaluation at linearisation points, mirror/mark oracles at quiescence"),
 "C05": dict(engine="netsim/server", section="3 (C05)",
   text="Same harness; routed Messages with conservative and full-syntax keys, filters, default routes, !Self, forged sender ids; the expected recipient set is computed at the instant the server processes each Message (muscle's MatchesPath over every node = the property's brute-force clause, plus an independent matcher) and compared with actual deliveries (exactly once, order, identity) at quiescence. Exploration.",
   note=SRVNOTE, technique="deterministic simulation: expectation at the server's linearisation point vs. deliveries at quiescence"),
 "C06": dict(engine="netsim/server", section="3 (C06)",
   text="Same harness; trespassing commands plus connection cuts after arbitrary byte prefixes (mostly inside a command), resets and closes while other traffic is in flight; per-command tree/mark diff confined to the sender's subtree, no processing of partially received commands, no unexplained disconnects, complete cleanup checked right after each departure. Exploration.",
   note=SRVNOTE, technique="deterministic simulation with crash-point (cut-at-byte) injection: per-command isolation diff and post-departure cleanup invariants"),
 "C07": dict(engine="netsim/server", section="3 (C07)",
   text="Same harness; a hostile client driven by per-handler templates with perturbed arguments (and a minority of flat random Messages) while not reading, victims under C04's oracles, a witness whose ping must be answered within 64 server steps; watchdog turns a non-returning handler into a reported hang. Exploration.",
   note=SRVNOTE, technique="deterministic simulation: scenario-directed hostile traffic, bounded-liveness witness, watchdog, sanitizers"),
 "C13": dict(engine="netsim/server", section="3 (C13)",
   text="Same harness; index-heavy histories; each client replays the index update log and its replica is compared with the real index at every quiescent point; index well-formedness after every processed command. Exploration.",
   note=SRVNOTE, technique="deterministic simulation: log-replay replica vs. real index at quiescence"),
 "C02": dict(engine="netsim/wire", section="3 (C02)",
   text="Seeded hostile-transport simulation into every gateway input path (binary, templating, zlib, text, raw, SLIP, WebSocket in both roles, C mini and micro gateways, both packet tunnels, the binary and plain-text gateways in packet mode): a real sender's valid stream is rewritten (boundary values in every length/count/type word, flips, truncations incl. inside a consistently framed body, garbage, splices) and fed to a real receiver under a seeded chunk schedule, in an ASan+UBSan build with exact-size frame copies; oracle = no sanitizer report, no hang/no-progress loop, delivered Messages well-formed, receiver reusable after Reset(), allocation <= 256N+1MiB per N-byte frame. Exploration over the seeds run; scoped to parsers reachable through a transport.",
   note="Trusts: ASan/UBSan as the memory-safety oracle (alignment checks off); uninitialised reads are not visible to them; the MicroMessage reader is sampled in 1 run in 300 only (its lack of bounds checks is known finding F27); direct calls of Message::Unflatten on caller-supplied buffers are out of scope (the C parsers are additionally called on exactly-sized copies of every well-framed body); not coverage-guided.",
   technique="deterministic simulation with fault injection: seeded structure-aware corruption/truncation/splicing of real gateway streams, fed under seeded segmentation to real receivers under ASan/UBSan with watchdog, reuse and allocation-bound oracles"),
 "C03": dict(engine="netsim/wire", section="3 (C03)",
   text="Seeded search over gateway pairs on a simulated byte stream: every gateway type (binary in 10 encodings with mid-stream encoding changes, templating, text, raw, SLIP, WebSocket pair, C mini<->C++), chunk schedules from whole-buffer down to 1 byte with would-blocks and framing/buffer-boundary sizes, arbitrary interleavings of enqueue/DoOutput(max)/DoInput(max); prefix oracle after every call, equality and bounded-step liveness after the drain. Exploration: a clean batch is evidence over the seeds run, not a proof.",
   note="Trusts: the simulated stream is reliable/ordered; comparison is by re-serialised bytes (so Message::Flatten is trusted to be injective); UBSan alignment checks off. ASan+UBSan build of the real sources with MUSCLE_VERIF_HOOKS.",
   technique="deterministic simulation: seeded chunk-schedule and call-interleaving search over real gateway pairs on a simulated stream, prefix/equality oracle"),
}
m = dict(version=1, setup_cmd="./setup.sh",
  hooks=dict(guard="MUSCLE_VERIF_HOOKS",
             enable="checks compile /repo's sources themselves (CMake/Ninja project /verif/sim -> /verif/build) with -DMUSCLE_VERIF_HOOKS -fsanitize=address,undefined; hooks are inert until a simulator installs g_muscleVerifSim",
             baseline_off_cmd="cmake --build /repo/_build && ctest --test-dir /repo/_build -j8 --timeout 900",
             source_commits=list(reversed(hooks)), add_only=True),
  engines=[
    dict(name="netsim/wire", path="sim/props/wire_worker.cpp", serves_properties=["C02", "C03"], kind_free_text="single-threaded discrete simulation of byte-stream transports between real gateway objects; plan = explicit op list incl. chunk schedules"),
    dict(name="netsim/server", path="sim/props/server_worker.cpp", serves_properties=["C04", "C05", "C06", "C07", "C13"], kind_free_text="real ReflectServer stepped one event-loop iteration at a time under wrapped select()/clock, N simulated clients with real gateways, reference model driven at the server's linearisation points"),
    dict(name="netsim/dgram", path="sim/props/dgram_worker.cpp", serves_properties=["C12"], kind_free_text="simulated lossy/duplicating/reordering datagram network between real packet-tunnel gateways"),
    dict(name="netsim/pulse", path="sim/props/pulse_worker.cpp", serves_properties=["C20"], kind_free_text="discrete-event clock driving real PulseNode trees through a harness PulseNodeManager"),
    dict(name="thrsim", path="sim/props/thr_worker.cpp", serves_properties=["C10", "C11", "C18", "C19"], kind_free_text="real threads parked on semaphores and released one at a time by a seeded scheduler entered at Mutex/WaitCondition/AtomicCounter/thread-lifecycle hooks; one fork()ed child per seed"),
  ],
  checks=[], not_applicable=[dict(property_id=i, reason=r) for i, r in NA],
  notes="All claimed checks are exploration-level seeded simulation (see DESIGN.md). Exit 2 from a check means a harness problem (build failure, non-reproducible failure, determinism mismatch), never a hidden violation. Properties not yet listed under checks or not_applicable are still being built.")
for pid in sorted(CHECKS):
    c = CHECKS[pid]
    if not os.path.exists(os.path.join(HERE, "sim", "props", pid.lower() + ".h")): continue
    m["checks"].append(dict(property_id=pid, quick_cmd="./check %s --tier quick" % pid, thorough_cmd="./check %s --tier thorough" % pid,
        evidence_file="evidence/%s.json" % pid, replay_cmd_template="./check %s --replay {path}" % pid, engine=c["engine"],
        level_claimed=dict(category="exploration", text=c["text"], design_ref=c["section"]), level_note=c["note"], technique=c["technique"]))
claimed = {c["property_id"] for c in m["checks"]} | {n["property_id"] for n in m["not_applicable"]}
m["engines"] = [e for e in m["engines"] if any(p in {c["property_id"] for c in m["checks"]} for p in e["serves_properties"])]
for pid in sorted(set("C%02d" % i for i in range(1, 21)) - claimed):
    m["not_applicable"].append(dict(property_id=pid, reason="not claimed yet: the simulation check for this property is designed (DESIGN.md section 3) but not registered until its worker exists and runs clean"))
m["not_applicable"].sort(key=lambda n: n["property_id"])
json.dump(m, open(os.path.join(HERE, "MANIFEST.json"), "w"), indent=1)
print("checks:", [c["property_id"] for c in m["checks"]], "unlisted:", sorted(set("C%02d" % i for i in range(1, 21)) - claimed))
